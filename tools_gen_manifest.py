"""Regenerates MANIFEST.json from harness/*.py META (run by hand after adding a property)."""
import importlib
import json
import os
import sys

sys.path.insert(0, os.path.dirname(os.path.abspath(__file__)))
PROPS = [json.loads(l) for l in open('properties.jsonl')]
checks, na = [], []
for p in PROPS:
    pid = p['id']
    try:
        mod = importlib.import_module('harness.' + pid.lower())
    except ModuleNotFoundError:
        na.append({'property_id': pid, 'reason': 'check not built yet in this round (planned: DESIGN.md section 4)'})
        continue
    meta = mod.META
    checks.append({
        'property_id': pid,
        'quick_cmd': 'bin/check %s --tier quick' % pid,
        'thorough_cmd': 'bin/check %s --tier thorough' % pid,
        'evidence_file': 'evidence/%s.json' % pid,
        'replay_cmd_template': 'bin/check %s --replay {path}' % pid,
        'engine': meta.get('engine', 'crosshair-symrt'),
        'level_claimed': {
            'category': meta.get('level', 'model_checking'),
            'text': meta['claim'],
            'design_ref': 'DESIGN.md section 4, ' + pid,
        },
        'level_note': meta['trusted'] + ' Outside the claim: ' + (meta.get('outside') or 'nothing beyond the stated bounds') + '.',
        'technique': meta.get('technique', 'bounded symbolic execution of the real pamqp code '
                              '(CrossHair + z3), counterexamples replayed concretely'),
    })
man = {
    'version': 1,
    'setup_cmd': 'bin/ensure_env',
    'hooks': {
        'guard': 'PAMQP_VERIF',
        'enable': 'no source hooks: checks import /repo/pamqp through an instrumenting AST loader '
                  '(symrt/loader.py) at run time; PAMQP_VERIF is reserved and unused',
        'baseline_off_cmd': 'cd /repo && /venv/bin/python -m pytest -ra -q -p no:cacheprovider --timeout=900',
        'source_commits': [],
        'add_only': True,
    },
    'engines': [
        {'name': 'crosshair-symrt', 'path': 'engine/', 'serves_properties': [c['property_id'] for c in checks
                                                                          if c['property_id'] != 'C17'],
         'kind_free_text': 'CrossHair 0.0.110 symbolic execution of the unmodified pamqp functions (imported '
                           'through symrt/loader.py from the current source) with z3 5.1 and the modelling '
                           'layer symrt/; counterexamples replayed by engine/replayer.py on the real code'},
        {'name': 'ksmt', 'path': 'engine/ksmt.py', 'serves_properties': ['C08', 'C13', 'C14', 'C15', 'C17'],
         'kind_free_text': 'SMT-LIB2 queries generated from the AST / introspection of the current source '
                           '(validators K1, catalogue and reply codes K2, timestamp lemma K3, ambiguity of regular-expression '
                           'loops applied by the decoders K4) discharged by '
                           'z3 (5.1; 4.8.12 and cvc5 as cross-check in the thorough tier)'},
    ],
    'checks': checks,
    'not_applicable': na,
    'notes': 'Exit codes: 0 held on everything explored, 1 violation (VIOLATION line with replay path), '
             '3 harness/model error (no verdict). fix: commits in /repo are listed in known_findings.json.',
}
json.dump(man, open('MANIFEST.json', 'w'), indent=1)
print('checks', len(checks), 'not yet', len(na))
