"""Independent transcription of AMQP 0-9-1 + RabbitMQ extensions (amqp0-9-1.extended.xml /
amqp-rabbitmq-0.9.1.json as published) with the overrides of the repository's
codegen/extensions.xml (domain exchange-name default '', ticket 0, out-of-band / channel-id '0',
queue-name length 256 and character class).  Written by hand from the protocol documents; shares
no code with pamqp and is never derived from pamqp.commands.

Argument names are the protocol's with '-' -> '_' and the three renames the library documents
(type -> exchange_type / message_type, global -> global_).
"""

NODEFAULT = None   # required argument: constructor default None
T = 'table'        # constructor default None, attribute value {} (documented as ``{}``)


def _m(cid, mid, name, args, sync=False, replies=()):
    return {'class_id': cid, 'method_id': mid, 'index': (cid << 16) | mid, 'name': name,
            'args': list(args), 'synchronous': sync, 'replies': list(replies)}


_CLOSE_ARGS = [('reply_code', 'short', None), ('reply_text', 'shortstr', ''),
               ('class_id', 'short', None), ('method_id', 'short', None)]
_TUNE_ARGS = [('channel_max', 'short', 0), ('frame_max', 'long', 0), ('heartbeat', 'short', 0)]
_TICKET = ('ticket', 'short', 0)

METHODS = [
    # ---- connection (10)
    _m(10, 10, 'Connection.Start',
       [('version_major', 'octet', 0), ('version_minor', 'octet', 9),
        ('server_properties', 'table', {}), ('mechanisms', 'longstr', 'PLAIN'),
        ('locales', 'longstr', 'en_US')], True, ['Connection.StartOk']),
    _m(10, 11, 'Connection.StartOk',
       [('client_properties', 'table', {}), ('mechanism', 'shortstr', 'PLAIN'),
        ('response', 'longstr', ''), ('locale', 'shortstr', 'en_US')]),
    _m(10, 20, 'Connection.Secure', [('challenge', 'longstr', None)], True, ['Connection.SecureOk']),
    _m(10, 21, 'Connection.SecureOk', [('response', 'longstr', None)]),
    _m(10, 30, 'Connection.Tune', _TUNE_ARGS, True, ['Connection.TuneOk']),
    _m(10, 31, 'Connection.TuneOk', _TUNE_ARGS),
    _m(10, 40, 'Connection.Open',
       [('virtual_host', 'shortstr', '/'), ('capabilities', 'shortstr', ''),
        ('insist', 'bit', False)], True, ['Connection.OpenOk']),
    _m(10, 41, 'Connection.OpenOk', [('known_hosts', 'shortstr', '')]),
    _m(10, 50, 'Connection.Close', _CLOSE_ARGS, True, ['Connection.CloseOk']),
    _m(10, 51, 'Connection.CloseOk', []),
    _m(10, 60, 'Connection.Blocked', [('reason', 'shortstr', '')]),
    _m(10, 61, 'Connection.Unblocked', []),
    _m(10, 70, 'Connection.UpdateSecret',
       [('new_secret', 'longstr', None), ('reason', 'shortstr', None)], True,
       ['Connection.UpdateSecretOk']),
    _m(10, 71, 'Connection.UpdateSecretOk', []),
    # ---- channel (20)
    _m(20, 10, 'Channel.Open', [('out_of_band', 'shortstr', '0')], True, ['Channel.OpenOk']),
    _m(20, 11, 'Channel.OpenOk', [('channel_id', 'longstr', '0')]),
    _m(20, 20, 'Channel.Flow', [('active', 'bit', None)], True, ['Channel.FlowOk']),
    _m(20, 21, 'Channel.FlowOk', [('active', 'bit', None)]),
    _m(20, 40, 'Channel.Close', _CLOSE_ARGS, True, ['Channel.CloseOk']),
    _m(20, 41, 'Channel.CloseOk', []),
    # ---- exchange (40)
    _m(40, 10, 'Exchange.Declare',
       [_TICKET, ('exchange', 'shortstr', ''), ('exchange_type', 'shortstr', 'direct'),
        ('passive', 'bit', False), ('durable', 'bit', False), ('auto_delete', 'bit', False),
        ('internal', 'bit', False), ('nowait', 'bit', False), ('arguments', 'table', {})],
       True, ['Exchange.DeclareOk']),
    _m(40, 11, 'Exchange.DeclareOk', []),
    _m(40, 20, 'Exchange.Delete',
       [_TICKET, ('exchange', 'shortstr', ''), ('if_unused', 'bit', False),
        ('nowait', 'bit', False)], True, ['Exchange.DeleteOk']),
    _m(40, 21, 'Exchange.DeleteOk', []),
    _m(40, 30, 'Exchange.Bind',
       [_TICKET, ('destination', 'shortstr', ''), ('source', 'shortstr', ''),
        ('routing_key', 'shortstr', ''), ('nowait', 'bit', False), ('arguments', 'table', {})],
       True, ['Exchange.BindOk']),
    _m(40, 31, 'Exchange.BindOk', []),
    _m(40, 40, 'Exchange.Unbind',
       [_TICKET, ('destination', 'shortstr', ''), ('source', 'shortstr', ''),
        ('routing_key', 'shortstr', ''), ('nowait', 'bit', False), ('arguments', 'table', {})],
       True, ['Exchange.UnbindOk']),
    _m(40, 51, 'Exchange.UnbindOk', []),
    # ---- queue (50)
    _m(50, 10, 'Queue.Declare',
       [_TICKET, ('queue', 'shortstr', ''), ('passive', 'bit', False), ('durable', 'bit', False),
        ('exclusive', 'bit', False), ('auto_delete', 'bit', False), ('nowait', 'bit', False),
        ('arguments', 'table', {})], True, ['Queue.DeclareOk']),
    _m(50, 11, 'Queue.DeclareOk',
       [('queue', 'shortstr', None), ('message_count', 'long', None),
        ('consumer_count', 'long', None)]),
    _m(50, 20, 'Queue.Bind',
       [_TICKET, ('queue', 'shortstr', ''), ('exchange', 'shortstr', ''),
        ('routing_key', 'shortstr', ''), ('nowait', 'bit', False), ('arguments', 'table', {})],
       True, ['Queue.BindOk']),
    _m(50, 21, 'Queue.BindOk', []),
    _m(50, 30, 'Queue.Purge',
       [_TICKET, ('queue', 'shortstr', ''), ('nowait', 'bit', False)], True, ['Queue.PurgeOk']),
    _m(50, 31, 'Queue.PurgeOk', [('message_count', 'long', None)]),
    _m(50, 40, 'Queue.Delete',
       [_TICKET, ('queue', 'shortstr', ''), ('if_unused', 'bit', False), ('if_empty', 'bit', False),
        ('nowait', 'bit', False)], True, ['Queue.DeleteOk']),
    _m(50, 41, 'Queue.DeleteOk', [('message_count', 'long', None)]),
    _m(50, 50, 'Queue.Unbind',
       [_TICKET, ('queue', 'shortstr', ''), ('exchange', 'shortstr', ''),
        ('routing_key', 'shortstr', ''), ('arguments', 'table', {})], True, ['Queue.UnbindOk']),
    _m(50, 51, 'Queue.UnbindOk', []),
    # ---- basic (60)
    _m(60, 10, 'Basic.Qos',
       [('prefetch_size', 'long', 0), ('prefetch_count', 'short', 0), ('global_', 'bit', False)],
       True, ['Basic.QosOk']),
    _m(60, 11, 'Basic.QosOk', []),
    _m(60, 20, 'Basic.Consume',
       [_TICKET, ('queue', 'shortstr', ''), ('consumer_tag', 'shortstr', ''),
        ('no_local', 'bit', False), ('no_ack', 'bit', False), ('exclusive', 'bit', False),
        ('nowait', 'bit', False), ('arguments', 'table', {})], True, ['Basic.ConsumeOk']),
    _m(60, 21, 'Basic.ConsumeOk', [('consumer_tag', 'shortstr', None)]),
    _m(60, 30, 'Basic.Cancel',
       [('consumer_tag', 'shortstr', None), ('nowait', 'bit', False)], True, ['Basic.CancelOk']),
    _m(60, 31, 'Basic.CancelOk', [('consumer_tag', 'shortstr', None)]),
    _m(60, 40, 'Basic.Publish',
       [_TICKET, ('exchange', 'shortstr', ''), ('routing_key', 'shortstr', ''),
        ('mandatory', 'bit', False), ('immediate', 'bit', False)]),
    _m(60, 50, 'Basic.Return',
       [('reply_code', 'short', None), ('reply_text', 'shortstr', ''), ('exchange', 'shortstr', ''),
        ('routing_key', 'shortstr', None)]),
    _m(60, 60, 'Basic.Deliver',
       [('consumer_tag', 'shortstr', None), ('delivery_tag', 'longlong', None),
        ('redelivered', 'bit', False), ('exchange', 'shortstr', ''),
        ('routing_key', 'shortstr', None)]),
    _m(60, 70, 'Basic.Get',
       [_TICKET, ('queue', 'shortstr', ''), ('no_ack', 'bit', False)], True,
       ['Basic.GetOk', 'Basic.GetEmpty']),
    _m(60, 71, 'Basic.GetOk',
       [('delivery_tag', 'longlong', None), ('redelivered', 'bit', False),
        ('exchange', 'shortstr', ''), ('routing_key', 'shortstr', None),
        ('message_count', 'long', None)]),
    _m(60, 72, 'Basic.GetEmpty', [('cluster_id', 'shortstr', '')]),
    _m(60, 80, 'Basic.Ack', [('delivery_tag', 'longlong', 0), ('multiple', 'bit', False)]),
    _m(60, 90, 'Basic.Reject', [('delivery_tag', 'longlong', None), ('requeue', 'bit', True)]),
    _m(60, 100, 'Basic.RecoverAsync', [('requeue', 'bit', False)]),
    _m(60, 110, 'Basic.Recover', [('requeue', 'bit', False)], True, ['Basic.RecoverOk']),
    _m(60, 111, 'Basic.RecoverOk', []),
    _m(60, 120, 'Basic.Nack',
       [('delivery_tag', 'longlong', 0), ('multiple', 'bit', False), ('requeue', 'bit', True)]),
    # ---- confirm (85)
    _m(85, 10, 'Confirm.Select', [('nowait', 'bit', False)], True, ['Confirm.SelectOk']),
    _m(85, 11, 'Confirm.SelectOk', []),
    # ---- tx (90)
    _m(90, 10, 'Tx.Select', [], True, ['Tx.SelectOk']),
    _m(90, 11, 'Tx.SelectOk', []),
    _m(90, 20, 'Tx.Commit', [], True, ['Tx.CommitOk']),
    _m(90, 21, 'Tx.CommitOk', []),
    _m(90, 30, 'Tx.Rollback', [], True, ['Tx.RollbackOk']),
    _m(90, 31, 'Tx.RollbackOk', []),
]
assert len(METHODS) == 64
BY_NAME = {m['name']: m for m in METHODS}
BY_INDEX = {m['index']: m for m in METHODS}
assert len(BY_NAME) == 64 and len(BY_INDEX) == 64

# Basic content properties, specification order, flag bit 15 down to 2
PROPERTIES = [
    ('content_type', 'shortstr'), ('content_encoding', 'shortstr'), ('headers', 'table'),
    ('delivery_mode', 'octet'), ('priority', 'octet'), ('correlation_id', 'shortstr'),
    ('reply_to', 'shortstr'), ('expiration', 'shortstr'), ('message_id', 'shortstr'),
    ('timestamp', 'timestamp'), ('message_type', 'shortstr'), ('user_id', 'shortstr'),
    ('app_id', 'shortstr'), ('cluster_id', 'shortstr'),
]
PROPERTY_FLAGS = {name: 1 << (15 - i) for i, (name, _) in enumerate(PROPERTIES)}
PROPERTY_DEFAULTS = {name: ('' if name == 'cluster_id' else None) for name, _ in PROPERTIES}
BASIC_CLASS_ID = 60

# ---- validation constraints (send side only)
NAME_CHARS = ('abcdefghijklmnopqrstuvwxyz' 'ABCDEFGHIJKLMNOPQRSTUVWXYZ' '0123456789' '-_.:@#,/ ')
EXCHANGE_MAXLEN = 127
QUEUE_MAXLEN = 256
VHOST_MAXLEN = 127


def name_char_ok(c):
    """range comparisons only (no set membership: keeps a symbolic oracle from hashing)"""
    o = ord(c)
    return ((97 <= o <= 122) or (65 <= o <= 90) or (44 <= o <= 58) or o == 32 or o == 35
            or o == 64 or o == 95)
# 44..58 = , - . / 0-9 :


assert all(name_char_ok(c) for c in NAME_CHARS)
assert sum(1 for i in range(0x110000) if name_char_ok(chr(i))) == len(NAME_CHARS)

# class name -> list of (argument, kind, parameter)
#   kind: 'fixed' (must equal parameter), 'exchange' (<=127 chars, NAME_CHARS),
#         'queue' (<=256 chars, NAME_CHARS), 'maxlen' (<= parameter chars)
CONSTRAINTS = {
    'Connection.Open': [('virtual_host', 'maxlen', VHOST_MAXLEN), ('capabilities', 'fixed', ''),
                        ('insist', 'fixed', False)],
    'Connection.OpenOk': [('known_hosts', 'fixed', '')],
    'Channel.Open': [('out_of_band', 'fixed', '0')],
    'Channel.OpenOk': [('channel_id', 'fixed', '0')],
    'Exchange.Declare': [('ticket', 'fixed', 0), ('exchange', 'exchange', None)],
    'Exchange.Delete': [('ticket', 'fixed', 0), ('exchange', 'exchange', None)],
    'Exchange.Bind': [('ticket', 'fixed', 0), ('destination', 'exchange', None),
                      ('source', 'exchange', None)],
    'Exchange.Unbind': [('ticket', 'fixed', 0), ('destination', 'exchange', None),
                        ('source', 'exchange', None)],
    'Queue.Declare': [('ticket', 'fixed', 0), ('queue', 'queue', None)],
    'Queue.DeclareOk': [('queue', 'queue', None)],
    'Queue.Bind': [('ticket', 'fixed', 0), ('queue', 'queue', None), ('exchange', 'exchange', None)],
    'Queue.Purge': [('ticket', 'fixed', 0), ('queue', 'queue', None)],
    'Queue.Delete': [('ticket', 'fixed', 0), ('queue', 'queue', None)],
    'Queue.Unbind': [('ticket', 'fixed', 0), ('queue', 'queue', None),
                     ('exchange', 'exchange', None)],
    'Basic.Consume': [('ticket', 'fixed', 0), ('queue', 'queue', None)],
    'Basic.Publish': [('ticket', 'fixed', 0), ('exchange', 'exchange', None)],
    'Basic.Return': [('exchange', 'exchange', None)],
    'Basic.Deliver': [('exchange', 'exchange', None)],
    'Basic.Get': [('ticket', 'fixed', 0), ('queue', 'queue', None)],
    'Basic.GetOk': [('exchange', 'exchange', None)],
    'Basic.GetEmpty': [('cluster_id', 'fixed', '')],
}
assert len(CONSTRAINTS) == 21

# ---- reply codes: value -> (NAME, soft?)
REPLY_CODES = {
    311: ('CONTENT-TOO-LARGE', True), 312: ('NO-ROUTE', True), 313: ('NO-CONSUMERS', True),
    320: ('CONNECTION-FORCED', False), 402: ('INVALID-PATH', False), 403: ('ACCESS-REFUSED', True),
    404: ('NOT-FOUND', True), 405: ('RESOURCE-LOCKED', True), 406: ('PRECONDITION-FAILED', True),
    501: ('FRAME-ERROR', False), 502: ('SYNTAX-ERROR', False), 503: ('COMMAND-INVALID', False),
    504: ('CHANNEL-ERROR', False), 505: ('UNEXPECTED-FRAME', False), 506: ('RESOURCE-ERROR', False),
    530: ('NOT-ALLOWED', False), 540: ('NOT-IMPLEMENTED', False), 541: ('INTERNAL-ERROR', False),
}
assert len(REPLY_CODES) == 18

CONSTANTS = {
    'FRAME_METHOD': 1, 'FRAME_HEADER': 2, 'FRAME_BODY': 3, 'FRAME_HEARTBEAT': 8,
    'FRAME_MIN_SIZE': 4096, 'FRAME_END': 206, 'FRAME_END_CHAR': b'\xce', 'FRAME_HEADER_SIZE': 7,
    'VERSION': (0, 9, 1), 'AMQP': b'AMQP', 'REPLY_SUCCESS': 200,
}

WIRE_TYPES = ('bit', 'octet', 'short', 'long', 'longlong', 'shortstr', 'longstr', 'table',
              'timestamp')
