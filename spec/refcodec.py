"""Independent reference encoder for AMQP 0-9-1 (+ RabbitMQ field-type errata).

Written from the protocol grammar; shares no code with pamqp and does not use `struct`.
Every function returns a *list of ints* (octets), built with integer arithmetic only, so the
same code runs on concrete values and on CrossHair symbolic values (no hashing, no set
membership, no C calls).

    frame          = type-octet channel-short size-long payload %xCE
    method payload = class-id-short method-id-short arguments
    bits           = consecutive bit arguments packed LSB-first into shared octets
    short string   = len-octet utf-8 ; long string = len-long utf-8
    field table    = size-long *(name-shortstr tag-octet value), names in ascending order
    content header = class-short weight-short(0) body-size-longlong flags-short properties
    property flags = first property is bit 15, ... , 14th is bit 2; bit 0 = continuation
"""
import datetime
import decimal

FRAME_METHOD, FRAME_HEADER, FRAME_BODY, FRAME_HEARTBEAT, FRAME_END = 1, 2, 3, 8, 0xCE


class Refused(Exception):
    """the reference refuses the value (outside the encodable domain)"""


class Num:
    """a multi-octet big-endian number field inside a reference byte template.  Kept abstract so
    that comparison with actual bytes is *linear* (sum of octets * 256^k == n) instead of a
    div/mod chain, which z3 handles badly for 64-bit values."""
    __slots__ = ('n', 'width', 'signed')

    def __init__(self, n, width, signed):
        self.n, self.width, self.signed = n, width, signed


def u(n, width):
    """big-endian unsigned"""
    if width == 1:
        return [n]
    return [Num(n, width, False)]


def s(n, width):
    """big-endian two's complement"""
    if width == 1:
        return [n + 256 if n < 0 else n]
    return [Num(n, width, True)]


def flatlen(tpl):
    return sum(it.width if isinstance(it, Num) else 1 for it in tpl)


def equal(actual, tpl):
    """do the actual octets (sequence of ints 0..255) equal the reference template?"""
    if len(actual) != flatlen(tpl):
        return False
    i = 0
    for it in tpl:
        if isinstance(it, Num):
            v = 0
            for k in range(it.width):
                v = v * 256 + actual[i + k]
            want = it.n
            if it.signed and want < 0:
                want = want + 256 ** it.width
            if not (0 <= want < 256 ** it.width) or v != want:
                return False
            i += it.width
        else:
            if actual[i] != it:
                return False
            i += 1
    return True


def flatten(tpl):
    """concrete octet list of a template (div/mod; for concrete use and small symbolic values)"""
    out = []
    for it in tpl:
        if isinstance(it, Num):
            n = it.n
            if it.signed and n < 0:
                n = n + 256 ** it.width
            out = out + [(n // (256 ** (it.width - 1 - k))) % 256 for k in range(it.width)]
        else:
            out.append(it)
    return out


def utf8(text):
    out = []
    for ch in text:
        c = ord(ch)
        if c < 0x80:
            out.append(c)
        elif c < 0x800:
            out.append(0xC0 + c // 64)
            out.append(0x80 + c % 64)
        elif c < 0x10000:
            if 0xD800 <= c <= 0xDFFF:
                raise Refused('surrogate')
            out.append(0xE0 + c // 4096)
            out.append(0x80 + (c // 64) % 64)
            out.append(0x80 + c % 64)
        else:
            out.append(0xF0 + c // 262144)
            out.append(0x80 + (c // 4096) % 64)
            out.append(0x80 + (c // 64) % 64)
            out.append(0x80 + c % 64)
    return out


def shortstr(text):
    b = utf8(text)
    if len(b) > 255:
        raise Refused('short string too long')
    return [len(b)] + b


def longstr(text):
    b = utf8(text)
    return u(len(b), 4) + b


def table_int(n, legacy=False):
    """smallest-fit ladder b, s, u, I, i, l (legacy: b, s, I, l)"""
    if -128 <= n <= 127:
        return [ord('b')] + s(n, 1)
    if -32768 <= n <= 32767:
        return [ord('s')] + s(n, 2)
    if not legacy and 0 <= n <= 65535:
        return [ord('u')] + u(n, 2)
    if -2147483648 <= n <= 2147483647:
        return [ord('I')] + s(n, 4)
    if not legacy and 0 <= n <= 4294967295:
        return [ord('i')] + u(n, 4)
    if -9223372036854775808 <= n <= 9223372036854775807:
        return [ord('l')] + s(n, 8)
    raise Refused('integer out of range')


def decimal_parts(d):
    """-> (scale, unscaled) with value == unscaled * 10**-scale, scale >= 0"""
    sign, digits, exp = d.as_tuple()
    if not isinstance(exp, int):
        raise Refused('non-finite decimal')
    n = 0
    for dg in digits:
        n = n * 10 + dg
    if exp >= 0:
        n, scale = n * 10 ** exp, 0
    else:
        scale = -exp
    if sign:
        n = -n
    if scale > 255 or not (-2147483648 <= n <= 2147483647):
        raise Refused('decimal out of range')
    return scale, n


def field_value(v, legacy=False, single_bits=None, epoch_of=None):
    """single_bits(float) -> 32-bit IEEE pattern ; epoch_of(datetime) -> whole epoch seconds"""
    if isinstance(v, bool):
        return [ord('t'), 1 if v else 0]
    if isinstance(v, int):
        return table_int(v, legacy)
    if isinstance(v, decimal.Decimal):
        scale, n = decimal_parts(v)
        return [ord('D'), scale] + s(n, 4)
    if isinstance(v, float):
        return [ord('f')] + u(single_bits(v), 4)
    if isinstance(v, str):
        return [ord('S')] + longstr(v)
    if isinstance(v, datetime.datetime):
        return [ord('T')] + u(epoch_of(v), 8)
    if isinstance(v, dict):
        return [ord('F')] + table(v, legacy, single_bits, epoch_of)
    if isinstance(v, list):
        return [ord('A')] + array(v, legacy, single_bits, epoch_of)
    if isinstance(v, bytearray):
        return [ord('x')] + u(len(v), 4) + [b for b in v]
    if v is None:
        return [ord('V')]
    raise Refused('unsupported type')


def array(items, legacy=False, single_bits=None, epoch_of=None):
    out = []
    for it in items:
        out = out + field_value(it, legacy, single_bits, epoch_of)
    return u(flatlen(out), 4) + out


def table(t, legacy=False, single_bits=None, epoch_of=None):
    if t is None:
        return [0, 0, 0, 0]
    pairs = sorted(t.items(), key=lambda kv: kv[0])
    out = []
    for k, v in pairs:
        out = out + shortstr(k) + field_value(v, legacy, single_bits, epoch_of)
    return u(flatlen(out), 4) + out


def frame(ftype, channel, payload):
    return [ftype] + u(channel, 2) + u(flatlen(payload), 4) + payload + [FRAME_END]


def arguments(spec_args, values, legacy=False, single_bits=None, epoch_of=None):
    """spec_args: [(name, wire type, default)], values: list in the same order"""
    out = []
    bits = []

    def flush():
        nonlocal out, bits
        while bits:
            chunk, bits = bits[:8], bits[8:]
            octet = 0
            for i, b in enumerate(chunk):
                octet = octet + b * (1 << i)     # arithmetic, no branching on the flag value
            out = out + [octet]

    for (name, wtype, _), v in zip(spec_args, values):
        if wtype == 'bit':
            bits.append(v)
            continue
        flush()
        if wtype == 'octet':
            out = out + u(v, 1)
        elif wtype == 'short':
            out = out + u(v, 2)
        elif wtype == 'long':
            out = out + u(v, 4)
        elif wtype == 'longlong':
            out = out + s(v, 8)
        elif wtype == 'shortstr':
            out = out + shortstr(v)
        elif wtype == 'longstr':
            out = out + longstr(v)
        elif wtype == 'table':
            out = out + table(v, legacy, single_bits, epoch_of)
        elif wtype == 'timestamp':
            out = out + u(epoch_of(v), 8)
        else:
            raise Refused('unknown wire type ' + wtype)
    flush()
    return out


def method_frame(channel, spec, values, **kw):
    payload = u(spec['class_id'], 2) + u(spec['method_id'], 2) + arguments(spec['args'], values, **kw)
    return frame(FRAME_METHOD, channel, payload)


def properties(props_spec, values, **kw):
    """props_spec: [(name, wire type)] in specification order; values: dict name -> value|None"""
    flags = 0
    out = []
    for i, (name, wtype) in enumerate(props_spec):
        v = values.get(name)
        if v is None or (isinstance(v, str) and len(v) == 0):
            continue
        flags = flags + (1 << (15 - i))
        out = out + arguments([(name, wtype, None)], [v], **kw)
    return u(flags, 2) + out


def content_header_frame(channel, body_size, props_spec, values, class_id=60, **kw):
    payload = u(class_id, 2) + u(0, 2) + u(body_size, 8) + properties(props_spec, values, **kw)
    return frame(FRAME_HEADER, channel, payload)


def body_frame(channel, content):
    return frame(FRAME_BODY, channel, [b for b in content])


def heartbeat_frame():
    return frame(FRAME_HEARTBEAT, 0, [])


def protocol_header(major, minor, revision):
    return [ord('A'), ord('M'), ord('Q'), ord('P'), 0, major, minor, revision]
