"""CBytes: a byte buffer of *concrete length* over (possibly symbolic) byte values.

CrossHair's SymbolicBytes realizes slice bounds, so `value[4:length + 4]` with a symbolic 32-bit
`length` forks 2**32 ways.  CBytes applies Python's slice clamping symbolically (two comparisons
per bound) before realizing, so a slice forks at most len+1 ways.
"""
from crosshair.core import realize
from crosshair.libimpl.builtinslib import SymbolicBytes, SymbolicInt
from crosshair.tracers import NoTracing


class CBytes(SymbolicBytes):
    def __init__(self, items):
        self.inner = list(items)

    def _ch_make(self, codepoints):
        return CBytes(codepoints)

    @staticmethod
    def _norm(v, default, n):
        # tracing ON
        if v is None:
            return default
        with NoTracing():
            sym = isinstance(v, SymbolicInt)
        if not sym:
            v = int(v)
            if v < 0:
                v += n
            return 0 if v < 0 else (n if v > n else v)
        if v < 0:
            v = v + n
            if v < 0:
                return 0
        if v >= n:
            return n
        with NoTracing():
            return realize(v)

    def __getitem__(self, i):
        n = len(self.inner)
        if isinstance(i, slice):
            if i.step is not None and i.step != 1:
                return CBytes(self.inner[i])
            start = self._norm(i.start, 0, n)
            stop = self._norm(i.stop, n, n)
            return CBytes(self.inner[start:stop])
        with NoTracing():
            sym = isinstance(i, SymbolicInt)
        if sym:
            if i >= n or i < -n:
                raise IndexError('index out of range')
            with NoTracing():
                i = realize(i)
        return self.inner[i]

    def __len__(self):
        return len(self.inner)

    def __iter__(self):
        return iter(self.inner)

    def __add__(self, other):
        return CBytes(self.inner + list(other))

    def __radd__(self, other):
        return CBytes(list(other) + self.inner)

    def __bool__(self):
        return len(self.inner) > 0
