"""hx - harness support with two interchangeable back ends.

HX_MODE=sym       (worker, under CrossHair): symbolic buffers, tables, floats, datetimes.
HX_MODE=concrete  (replayer, plain CPython on the uninstrumented /repo): bytes, dict, float, datetime.

The *same* harness body runs in both modes; a counterexample found symbolically is only believed
when the concrete run of the same body fails too.
"""
import calendar
import datetime
import json
import os
import struct
import sys

from symrt.fuel import Fuel, FuelExhausted

MODE = os.environ.get('HX_MODE', 'concrete')
SYM = MODE == 'sym'

COUNT = {'reach': 0, 'rejected': 0, 'failed': 0, 'runs': 0, 'max_ticks': 0}
LAST = {'exc': None, 'ok': None, 'note': None}
_REJECT = [False]
SUSPECT = [False]
UTC = datetime.timezone.utc
EPOCH = datetime.datetime(1970, 1, 1, tzinfo=UTC)

if SYM:
    from crosshair.core import deep_realize
    from crosshair.simplestructs import ShellMutableMap, SimpleDict
    from crosshair.tracers import NoTracing
    from symrt import models as _models
    from symrt import symdt as _symdt
    from symrt.cbytes import CBytes


# ----------------------------------------------------------------------------- values
def buf(items):
    """byte buffer of concrete length from a list of ints (symbolic contents allowed)"""
    if SYM:
        return CBytes(list(items))
    return bytes(items)


def blist(b, n):
    return [b[i] for i in range(n)]


def fix(data):
    """re-wrap encoder output as a concrete-length buffer (forks on the length when symbolic)"""
    if SYM:
        n = len(data)
        return CBytes([data[i] for i in range(n)])
    return bytes(data)


def table(pairs):
    if SYM:
        with NoTracing():
            return ShellMutableMap(SimpleDict(list(pairs)))
    return dict(pairs)


def is_dict(x):
    return isinstance(x, dict)


def double(bits):
    """float with the given IEEE-754 binary64 bit pattern"""
    if SYM:
        return _models.sym_double_from_bits(bits)
    return struct.unpack('>d', struct.pack('>Q', bits))[0]


def dbits(x):
    if SYM:
        return _models.double_bits(x)
    return struct.unpack('>Q', struct.pack('>d', x))[0]


def isnan(x):
    return x != x


def dt(wall, us, off):
    """datetime whose wall clock reads `wall` seconds after 1970-01-01T00:00 (+us), naive when
    off is None, otherwise with utc offset `off` seconds"""
    if SYM:
        return _symdt.SymDT(wall, us, off)
    base = datetime.datetime(1970, 1, 1) + datetime.timedelta(seconds=wall, microseconds=us)
    if off is None:
        return base
    return base.replace(tzinfo=datetime.timezone(datetime.timedelta(seconds=off)))


def env(offsets):
    """declare the (nondeterministic) local utc offsets the process time zone may answer with"""
    if SYM:
        _symdt.set_env(offsets)


_TIME_ATTRS = {}
ZONE = [None]


def env_zone(std, dst):
    """the process time zone: standard utc offset `std` seconds, DST (+1 h) in force iff `dst`.
    Every local-time query answers std + 3600*dst; time.timezone / altzone / daylight follow."""
    if SYM:
        import time as _time
        off = std + 3600 if dst else std
        _symdt.set_env([off])
        ZONE[0] = (std, dst)
        if not _TIME_ATTRS:
            _TIME_ATTRS.update(timezone=_time.timezone, altzone=_time.altzone, daylight=_time.daylight)
        _time.timezone = -std
        _time.altzone = -(std + 3600)
        _time.daylight = 1


def _restore_time():
    if _TIME_ATTRS:
        import time as _time
        _time.timezone, _time.altzone, _time.daylight = (
            _TIME_ATTRS['timezone'], _TIME_ATTRS['altzone'], _TIME_ATTRS['daylight'])
    ZONE[0] = None


def dt_parts(v):
    """-> None if v is not a datetime, else (aware?, seconds, microsecond, utc offset seconds):
    seconds = absolute epoch seconds for aware values, wall-clock seconds for naive ones"""
    if SYM:
        with NoTracing():
            is_sym = isinstance(v, _symdt.SymDT)
        if not is_sym:
            return None
        if v._off is None:
            return (False, v._wall, v._us, None)
        return (True, v._wall - v._off, v._us, v._off)
    if not isinstance(v, datetime.datetime):
        return None
    if v.tzinfo is None or v.utcoffset() is None:
        return (False, calendar.timegm(v.timetuple()), v.microsecond, None)
    d = v - EPOCH
    return (True, d.days * 86400 + d.seconds, v.microsecond,
            int(v.utcoffset().total_seconds()))


def realize(x):
    if SYM:
        with NoTracing():
            return deep_realize(x)
    return x


def concrete_len(x):
    n = len(x)
    return realize(n) if SYM else n


# ----------------------------------------------------------------------------- bookkeeping
def suspicion():
    """the symbolic run saw something that MAY be a violation (e.g. a write to module state); the
    concrete replay decides whether it is observable.  A replay that passes is then reported as a note,
    not as a harness error."""
    SUSPECT[0] = True


def rejected(note=None):
    """the input was refused by the library in a way the property allows; counts separately"""
    _REJECT[0] = True
    return True


def fuel(limit):
    Fuel.reset(limit)
    if not SYM:
        _install_line_budget(limit * 60)


def fuel_off():
    Fuel.limit = 10 ** 12
    if not SYM:
        sys.settrace(None)


def fuel_tripped():
    return Fuel.tripped


def _install_line_budget(lines):
    root = os.environ.get('VERIF_REPO', '/repo') + '/pamqp/'
    state = [0]

    def local(frame, event, arg):
        if event == 'line':
            state[0] += 1
            if state[0] > lines:
                Fuel.tripped = True
                sys.settrace(None)
                raise FuelExhausted()
        return local

    def glob(frame, event, arg):
        if frame.f_code.co_filename.startswith(root):
            return local
        return None

    sys.settrace(glob)


def _jsonable(x):
    if isinstance(x, bool) or x is None or isinstance(x, (int, str)):
        return x
    if isinstance(x, float):
        return {'__float__': struct.pack('>d', x).hex()}
    if isinstance(x, (bytes, bytearray)):
        return {'__bytes__': bytes(x).hex()}
    if isinstance(x, (list, tuple)):
        return [_jsonable(i) for i in x]
    if isinstance(x, dict):
        return {'__dict__': [[_jsonable(k), _jsonable(v)] for k, v in x.items()]}
    return {'__repr__': repr(x)}


def from_jsonable(x):
    if isinstance(x, dict):
        if '__float__' in x:
            return struct.unpack('>d', bytes.fromhex(x['__float__']))[0]
        if '__bytes__' in x:
            return bytes.fromhex(x['__bytes__'])
        if '__dict__' in x:
            return {from_jsonable(k): from_jsonable(v) for k, v in x['__dict__']}
        raise ValueError('cannot rebuild %r' % (x,))
    if isinstance(x, list):
        return [from_jsonable(i) for i in x]
    return x


def _report(args, exc, zone=None):
    path = os.environ.get('HX_CEX_FILE')
    if not path:
        return
    if SYM:
        with NoTracing():
            real = {k: _jsonable(deep_realize(v)) for k, v in args.items()}
            note = None if exc is None else '%s: %s' % (type(exc).__name__, exc)
            extra = {}
            if _symdt.ENV[0] is not None:
                try:
                    extra['env_offsets'] = [deep_realize(o) for o in _symdt.ENV[0].offsets]
                except Exception:
                    pass
            if zone is not None:
                try:
                    extra['env_zone'] = [deep_realize(zone[0]), bool(deep_realize(zone[1]))]
                except Exception:
                    pass
            with open(path, 'w') as f:
                json.dump({'args': real, 'observed': note, 'fuel_tripped': Fuel.tripped,
                           'suspect': SUSPECT[0], **extra}, f)


def run(body, args):
    """Run a harness body; the property is `body(**args)` returning True.  Any Exception escaping
    the body is a failure (bodies catch what the property allows).  Returns a concrete bool."""
    COUNT['runs'] += 1
    _REJECT[0] = False
    SUSPECT[0] = False
    Fuel.reset()
    exc = None
    try:
        ok = body(**args)
    except FuelExhausted:
        ok = False
    except Exception as e:  # noqa: BLE001 - CrossHair's control-flow exceptions are BaseException
        ok, exc = False, e
    finally:
        if not SYM:
            sys.settrace(None)
    zone = ZONE[0]
    if SYM:
        _restore_time()
    if Fuel.used > COUNT['max_ticks']:
        COUNT['max_ticks'] = Fuel.used
    if Fuel.tripped:
        ok = False
    if ok:
        if _REJECT[0]:
            COUNT['rejected'] += 1
        else:
            COUNT['reach'] += 1
        LAST['ok'], LAST['exc'] = True, None
        return True
    if SYM:
        # CrossHair's str.encode accepts lone surrogates, CPython refuses them: a failure is only believed
        # on the branch where no string argument contains one (decided on the failing path only)
        for v in args.values():
            if isinstance(v, str) and not valid_text(v):
                COUNT['rejected'] += 1
                return True
    COUNT['failed'] += 1
    LAST['ok'] = False
    LAST['exc'] = None if exc is None else '%s: %s' % (type(exc).__name__, exc)
    if Fuel.tripped:
        LAST['exc'] = 'work budget exhausted (non-termination or super-linear work)'
    _report(args, exc, zone)
    return False


def to_single(x):
    """nearest binary32 value (as a Python float), ties to even; inf when out of range"""
    if SYM:
        import z3
        with NoTracing():
            from crosshair.libimpl.builtinslib import PreciseIeeeSymbolicFloat
            if isinstance(x, PreciseIeeeSymbolicFloat):
                y = z3.fpFPToFP(z3.RNE(), x.var, z3.Float32())
                return PreciseIeeeSymbolicFloat(z3.fpFPToFP(z3.RNE(), y, z3.Float64()))
            x = realize(x)
    import ctypes
    return ctypes.c_float(x).value


def same_sign(a, b):
    """distinguishes -0.0 from 0.0"""
    if SYM:
        return (dbits(a) >= 2 ** 63) == (dbits(b) >= 2 ** 63)
    import math
    return math.copysign(1.0, a) == math.copysign(1.0, b)


def valid_text(s):
    """no lone surrogates (U+D800..U+DFFF): such strings are not encodable text; CPython's UTF-8 codec
    refuses them while CrossHair's model of str.encode does not, so harnesses keep them outside the
    symbolic domain"""
    for c in s:
        if 0xD800 <= ord(c) <= 0xDFFF:
            return False
    return True


def single_bits(x):
    """IEEE-754 binary32 bit pattern of the nearest single (ties to even) of a non-NaN float"""
    if SYM:
        import z3
        with NoTracing():
            from crosshair.libimpl.builtinslib import PreciseIeeeSymbolicFloat, SymbolicInt
            if isinstance(x, PreciseIeeeSymbolicFloat):
                y = z3.fpFPToFP(z3.RNE(), x.var, z3.Float32())
                return SymbolicInt(z3.BV2Int(z3.fpToIEEEBV(y)))
            x = realize(x)
    import ctypes
    return ctypes.c_uint32.from_buffer(ctypes.c_float(x)).value


def st(wall, gmtoff=None):
    """struct_time whose broken-down fields read `wall` seconds after 1970-01-01T00:00, tm_isdst=-1
    (what datetime.timetuple() and time.strptime() produce); with gmtoff an 11-field struct_time that
    also carries tm_gmtoff / tm_zone (what time.localtime() and strptime('%z') produce)"""
    if SYM:
        return _symdt.SymST(wall, gmtoff)
    base = (datetime.datetime(1970, 1, 1) + datetime.timedelta(seconds=wall)).timetuple()
    if gmtoff is None:
        return base
    import time as _time
    return _time.struct_time(tuple(base) + ('XXX', gmtoff))


def untraced(fn, *a):
    """run a helper that only inspects concrete interpreter state without symbolic tracing"""
    if SYM:
        with NoTracing():
            return fn(*a)
    return fn(*a)


def float_from_octets(octets, width):
    """the float denoted by 4 / 8 big-endian IEEE-754 octets (binary32 widened to a Python float)"""
    fc = 'f' if width == 4 else 'd'
    if SYM:
        with NoTracing():
            return _models._unpack_float(list(octets), fc)
    return struct.unpack('>' + fc, bytes(octets))[0]
