"""Differential self-test of the modelling layer against CPython (DESIGN.md section 2, item 10).

Each case pins symbolic inputs to one concrete value (x.var == v), runs the *model* symbolically
and compares its realized output with what CPython computes on v.  A mismatch exits non-zero
(harness error, never a verdict).  Prints `selftest ok cases <n>` as its last line.
"""
import os
import random
import struct
import subprocess
import sys

os.environ['HX_MODE'] = 'sym'


def main():
    seed = int(sys.argv[1]) if len(sys.argv) > 1 else 0
    rng = random.Random(seed)
    import z3
    from symrt import loader
    loader.install()
    import crosshair.core_and_libs  # noqa: F401
    from crosshair.core import deep_realize, standalone_statespace
    from crosshair.libimpl.builtinslib import SymbolicBool, SymbolicInt
    from crosshair.tracers import NoTracing
    from symrt import hx, models
    from symrt.cbytes import CBytes
    models.install()
    cases = [0]
    fails = []

    def symint(space, v, name='x'):
        with NoTracing():
            s = SymbolicInt(name + space.uniq())
            space.add(s.var == v)
            return s

    def symbool(space, v):
        with NoTracing():
            s = SymbolicBool('b' + space.uniq())
            space.add(s.var == bool(v))
            return s

    def outcome(fn):
        try:
            r = fn()
            with NoTracing():
                r = deep_realize(r)
            if isinstance(r, (bytes, bytearray)):
                r = bytes(r)
            return ('ok', r)
        except Exception as e:  # noqa: BLE001
            return ('exc', type(e).__name__)

    def expect(label, got, want):
        cases[0] += 1
        if isinstance(want[1], float) and want[1] != want[1]:
            ok = got[0] == 'ok' and got[1] != got[1]
        else:
            ok = got == want
        if not ok:
            fails.append('%s: model=%r cpython=%r' % (label, got, want))

    # ---- struct integer formats used by pamqp.common.Struct and frame/header code
    fmts = ['B', '>B', '>b', '>h', '>H', '>i', '>I', '>l', '>L', '>q', '>Q']
    for fmt in fmts:
        size = struct.calcsize(fmt)
        signed = fmt[-1] in 'bhilq'
        lo = -(1 << (8 * size - 1)) if signed else 0
        hi = (1 << (8 * size - 1)) - 1 if signed else (1 << (8 * size)) - 1
        vals = {lo, lo + 1, -1, 0, 1, 127, 128, 255, 256, hi - 1, hi, lo - 1, hi + 1,
                rng.randint(lo, hi), rng.randint(lo, hi), rng.randint(-2 ** 70, 2 ** 70)}
        for v in sorted(vals):
            with standalone_statespace as space:
                s = symint(space, v)
                S = struct.Struct(fmt)
                got = outcome(lambda: S.pack(s))
            want = outcome(lambda: struct.pack(fmt, v))
            expect('pack %s %d' % (fmt, v), got, want)
            if lo <= v <= hi:
                raw = struct.pack(fmt, v)
                with standalone_statespace as space:
                    items = [symint(space, b, 'y') for b in raw]
                    with NoTracing():
                        cb = CBytes(items)
                    S = struct.Struct(fmt)
                    got = outcome(lambda: S.unpack(cb)[0])
                    got2 = outcome(lambda: S.unpack_from(CBytes(items + [7]), 0)[0])
                    got3 = outcome(lambda: S.unpack(CBytes(items + [7])))
                expect('unpack %s %d' % (fmt, v), got, ('ok', v))
                expect('unpack_from %s %d' % (fmt, v), got2, ('ok', v))
                expect('unpack long %s' % fmt, got3, ('exc', 'error'))
    # multi-field formats
    for fmt, vals in (('>BHI', (200, 65535, 4000000000)), ('>BHI', (1, 0, 0)),
                      ('>HxxQ', (60, 2 ** 64 - 1)), ('>HHQ', (65535, 1, 2 ** 63)),
                      ('BBBB', (0, 0, 9, 1)), ('>Bi', (3, -5)), ('>H', (65534,))):
        with standalone_statespace as space:
            ss = [symint(space, v) for v in vals]
            got = outcome(lambda: struct.pack(fmt, *ss))
        expect('pack %s' % fmt, got, outcome(lambda: struct.pack(fmt, *vals)))
        raw = struct.pack(fmt, *vals)
        with standalone_statespace as space:
            items = [symint(space, b, 'y') for b in raw]
            got = outcome(lambda: struct.unpack(fmt, CBytes(items)))
        expect('unpack %s' % fmt, got, ('ok', struct.unpack(fmt, raw)))
    # bool and wrong types into integer formats
    with standalone_statespace as space:
        b = symbool(space, True)
        got = outcome(lambda: struct.Struct('B').pack(b))
    expect('pack B bool', got, ('ok', b'\x01'))

    # ---- floats
    specials = [0.0, -0.0, 1.0, -1.5, 3.4028234663852886e38, 3.4028235677973366e38, 3.5e38, -3.5e38,
                1e-45, 1.401298464324817e-45, 7e-46, float('inf'), float('-inf'), float('nan'),
                5e-324, 1.7976931348623157e308, 16777217.0, 0.1, rng.random(), rng.uniform(-1e30, 1e30)]
    for x in specials:
        bits = struct.unpack('>Q', struct.pack('>d', x))[0]
        for fmt in ('>f', '>d'):
            with standalone_statespace as space:
                s = symint(space, bits)
                f = models.sym_double_from_bits(s)
                S = struct.Struct(fmt)
                got = outcome(lambda: S.pack(f))
            want = outcome(lambda: struct.pack(fmt, x))
            if x != x:
                cases[0] += 1
                if got[0] != 'ok' or len(got[1]) != len(want[1]):
                    fails.append('pack %s nan: %r' % (fmt, got))
            else:
                expect('pack %s %r' % (fmt, x), got, want)
            if want[0] == 'ok':
                raw = want[1]
                with standalone_statespace as space:
                    items = [symint(space, b, 'y') for b in raw]
                    S = struct.Struct(fmt)
                    got = outcome(lambda: S.unpack_from(CBytes(items))[0])
                expect('unpack %s %r' % (fmt, x), got, ('ok', struct.unpack(fmt, raw)[0]))

    # ---- CBytes slicing: every (start, stop) in [-n-2, n+2]^2, n <= 6
    for n in range(0, 7):
        raw = bytes(range(10, 10 + n))
        for a in list(range(-n - 2, n + 3)) + [None]:
            for b in list(range(-n - 2, n + 3)) + [None]:
                with standalone_statespace as space:
                    sa = None if a is None else symint(space, a)
                    sb = None if b is None else symint(space, b)
                    with NoTracing():
                        cb = CBytes(list(raw))
                    got = outcome(lambda: cb[sa:sb])
                expect('slice n=%d [%r:%r]' % (n, a, b), got, ('ok', raw[a:b]))
        for i in range(-n - 1, n + 2):
            with standalone_statespace as space:
                si = symint(space, i)
                with NoTracing():
                    cb = CBytes(list(raw))
                got = outcome(lambda: cb[si])
            expect('index n=%d [%d]' % (n, i), got, outcome(lambda: raw[i]))

    # ---- bitwise
    masks = [1, 2, 0x80, 0xFFFE, 0x8000, 0x0004, 0x7F, 0xF0F0, 0x101, 0xFFFF, 0xFFFFFFFF]
    xs = [0, 1, 2, 3, 0x8101, 0xFFFF, 0x7FFF, -1, -2, -32768, 255, 256, 0x12345678,
          rng.randint(-2 ** 40, 2 ** 40), rng.randint(0, 2 ** 16)]
    for m in masks:
        for x in xs:
            with standalone_statespace as space:
                s = symint(space, x)
                g1 = outcome(lambda: s & m)
                g2 = outcome(lambda: s | m)
                g3 = outcome(lambda: m & s)
            expect('%d & %d' % (x, m), g1, ('ok', x & m))
            expect('%d | %d' % (x, m), g2, ('ok', x | m))
            expect('%d & %d (r)' % (m, x), g3, ('ok', m & x))
    for x in (0, 1, 5, 0x55, 0xFF, 0x1234):
        for y in (0, 1, 2, 0xAA, 0x80, 0x4321):
            with standalone_statespace as space:
                s, t = symint(space, x), symint(space, y)
                g1 = outcome(lambda: s | t)
                g2 = outcome(lambda: s & t)
            expect('%d | %d sym' % (x, y), g1, ('ok', x | y))
            expect('%d & %d sym' % (x, y), g2, ('ok', x & y))
    for x in (True, False):
        for pos in range(0, 8):
            with standalone_statespace as space:
                b = symbool(space, x)
                acc = symint(space, 0x21)
                g = outcome(lambda: acc | (b << pos))
            expect('bit %r<<%d' % (x, pos), g, ('ok', 0x21 | (x << pos)))

    # ---- hash-free dict and forking lookup
    with standalone_statespace as space:
        d = loader._vdict()
        k1 = 'k' + str(1)
        d[k1] = 5
        d['z'] = [1]
        d[k1] = 6
        got = outcome(lambda: (len(d), d['k1'], list(d.keys()), d == {'k1': 6, 'z': [1]}))
    expect('vdict', got, ('ok', (2, 6, ['k1', 'z'], True)))
    table = {10: int, 20: str, 30: bytes}
    for key in (10, 20, 30, 40):
        with standalone_statespace as space:
            s = symint(space, key)
            got = outcome(lambda: models.ForkingLookup(table)[s])
        expect('lookup %d' % key, got, outcome(lambda: table[key]))

    # ---- SymDT against datetime under several TZ settings (child processes)
    code = (
        "import datetime,calendar,time,json,sys\n"
        "out=[]\n"
        "for wall,us in ((0,0),(86399,999999),(1700000000,5),(4294967295,1),(1089590400,0)):\n"
        "  n=datetime.datetime(1970,1,1)+datetime.timedelta(seconds=wall,microseconds=us)\n"
        "  a=n.replace(tzinfo=datetime.timezone.utc)\n"
        "  o=datetime.timezone(datetime.timedelta(seconds=-12600))\n"
        "  b=n.replace(tzinfo=o)\n"
        "  loc=time.localtime(wall); off=calendar.timegm(loc)-wall\n"
        "  out.append([wall,us,int(a.timestamp()),int(b.timestamp()),int(n.timestamp())+off-wall if False else int(n.timestamp()),"
        "    datetime.datetime.fromtimestamp(wall,tz=datetime.timezone.utc).isoformat()])\n"
        "print(json.dumps(out))\n")
    import json
    for tz in ('UTC', 'XXX-13:56:16', 'America/New_York', 'Australia/Lord_Howe', 'Asia/Kolkata'):
        env = dict(os.environ, TZ=tz)
        p = subprocess.run(['/venv/bin/python', '-c', code], env=env, capture_output=True, text=True)
        rows = json.loads(p.stdout)
        for wall, us, ts_utc, ts_off, ts_naive, iso in rows:
            from symrt import symdt
            with standalone_statespace as space:
                w, u = symint(space, wall), symint(space, us)
                local_off = wall - ts_naive   # what this TZ answered for that wall time
                symdt.set_env([local_off])
                g1 = outcome(lambda: int(symdt.SymDT(w, u, 0).timestamp()))
                g2 = outcome(lambda: int(symdt.SymDT(w, u, -12600).timestamp()))
                g3 = outcome(lambda: int(symdt.SymDT(w, u, None).timestamp()))
                g4 = outcome(lambda: hx.dt_parts(symdt._fromtimestamp(w, tz=symdt.UTC)))
            expect('symdt utc %s %d' % (tz, wall), g1, ('ok', ts_utc))
            expect('symdt off %s %d' % (tz, wall), g2, ('ok', ts_off))
            expect('symdt naive %s %d' % (tz, wall), g3, ('ok', ts_naive))
            expect('symdt fromts %s %d' % (tz, wall), g4, ('ok', (True, wall, 0, 0)))

    if fails:
        for f in fails[:40]:
            print('SELFTEST MISMATCH', f)
        print('selftest FAILED mismatches %d of %d' % (len(fails), cases[0]))
        sys.exit(3)
    print('selftest ok cases %d' % cases[0])


if __name__ == '__main__':
    main()
