"""Instrumenting loader: imports pamqp.* from $VERIF_REPO (default /repo) through an AST rewrite.

Regenerated from the current source on every run; /repo is never written.

Rewrites (DESIGN.md section 2, items 5-7):
  (a) a fuel tick at every loop head and function entry (C08; also records the functions executed),
  (b) the empty dict display `{}` in pamqp/decode.py becomes CrossHair's hash-free mapping,
  (c) inside `raise Exc(...)` / `warnings.warn(...)` argument lists: `<str const>.format(...)`,
      `<str const> % x` and `str(x)` become their template constant; `LOGGER.<level>(...)`
      statements become `pass`.
"""
import ast
import importlib.abc
import importlib.util
import os
import sys

ROOT = os.environ.get('VERIF_REPO', '/repo')


from symrt.fuel import Fuel, FuelExhausted, tick as _tick  # noqa: E402,F401


def _vdict():
    from crosshair.simplestructs import ShellMutableMap, SimpleDict
    from crosshair.tracers import NoTracing
    with NoTracing():
        return ShellMutableMap(SimpleDict([]))


REWRITES = {'dict_subst': 0, 'msg_cut': 0, 'logger_cut': 0, 'ticks': 0}


def _tick_stmt(node, name=None):
    args = [] if name is None else [ast.Constant(name)]
    call = ast.Expr(ast.Call(func=ast.Name(id='__vtick__', ctx=ast.Load()), args=args, keywords=[]))
    return ast.copy_location(call, node)


class _MsgCut(ast.NodeTransformer):
    """Applied to the argument expressions of raise / warnings.warn only."""

    def visit_Call(self, node):
        self.generic_visit(node)
        f = node.func
        if (isinstance(f, ast.Attribute) and f.attr == 'format'
                and isinstance(f.value, ast.Constant) and isinstance(f.value.value, str)):
            REWRITES['msg_cut'] += 1
            return ast.copy_location(ast.Constant(f.value.value), node)
        if isinstance(f, ast.Name) and f.id == 'str' and len(node.args) == 1 and not node.keywords:
            REWRITES['msg_cut'] += 1
            return ast.copy_location(ast.Constant('?'), node)
        return node

    def visit_BinOp(self, node):
        self.generic_visit(node)
        if (isinstance(node.op, ast.Mod) and isinstance(node.left, ast.Constant)
                and isinstance(node.left.value, str)):
            REWRITES['msg_cut'] += 1
            return ast.copy_location(ast.Constant(node.left.value), node)
        return node


class _Rewrite(ast.NodeTransformer):
    def __init__(self, modname):
        self.modname = modname
        self.scope = []

    # (b)
    def visit_Dict(self, node):
        self.generic_visit(node)
        if self.modname == 'pamqp.decode' and not node.keys and self.scope:
            REWRITES['dict_subst'] += 1
            return ast.copy_location(
                ast.Call(func=ast.Name(id='__vdict__', ctx=ast.Load()), args=[], keywords=[]), node)
        return node

    # (c)
    def visit_Raise(self, node):
        self.generic_visit(node)
        if isinstance(node.exc, ast.Call):
            cut = _MsgCut()
            node.exc.args = [cut.visit(a) for a in node.exc.args]
            for kw in node.exc.keywords:
                kw.value = cut.visit(kw.value)
        return node

    def visit_Expr(self, node):
        self.generic_visit(node)
        v = node.value
        if isinstance(v, ast.Call) and isinstance(v.func, ast.Attribute):
            f = v.func
            if isinstance(f.value, ast.Name) and f.value.id == 'LOGGER':
                REWRITES['logger_cut'] += 1
                return ast.copy_location(ast.Pass(), node)
            if isinstance(f.value, ast.Name) and f.value.id == 'warnings' and f.attr == 'warn':
                cut = _MsgCut()
                v.args = [cut.visit(a) for a in v.args]
        return node

    # (a)
    def _loop(self, node):
        self.generic_visit(node)
        node.body.insert(0, _tick_stmt(node.body[0]))
        REWRITES['ticks'] += 1
        return node

    visit_While = _loop
    visit_For = _loop

    def visit_ClassDef(self, node):
        self.scope.append(node.name)
        self.generic_visit(node)
        self.scope.pop()
        return node

    def visit_FunctionDef(self, node):
        self.scope.append(node.name)
        self.generic_visit(node)
        qual = self.modname + '.' + '.'.join(self.scope)
        self.scope.pop()
        i = 0
        if (node.body and isinstance(node.body[0], ast.Expr)
                and isinstance(getattr(node.body[0], 'value', None), ast.Constant)
                and isinstance(node.body[0].value.value, str)):
            i = 1
        if i < len(node.body):
            node.body.insert(i, _tick_stmt(node.body[i], qual))
        else:
            node.body.append(_tick_stmt(node.body[-1], qual))
        REWRITES['ticks'] += 1
        return node


def scan_unsafe_formats(root=None):
    """AST scan: report .format / % / str() results in pamqp/ that flow somewhere other than a
    raise/warn argument (those are not cut, a harness touching them may be inconclusive)."""
    root = root or ROOT
    found = []
    pk = os.path.join(root, 'pamqp')
    for fn in sorted(os.listdir(pk)):
        if not fn.endswith('.py'):
            continue
        tree = ast.parse(open(os.path.join(pk, fn)).read())
        safe = set()
        for node in ast.walk(tree):
            if isinstance(node, ast.Raise) and node.exc is not None:
                for sub in ast.walk(node.exc):
                    safe.add(id(sub))
            if isinstance(node, ast.Expr) and isinstance(node.value, ast.Call):
                f = node.value.func
                if isinstance(f, ast.Attribute) and isinstance(f.value, ast.Name) and \
                        f.value.id in ('LOGGER', 'warnings'):
                    for sub in ast.walk(node.value):
                        safe.add(id(sub))
        for node in ast.walk(tree):
            if id(node) in safe:
                continue
            if isinstance(node, ast.Call) and isinstance(node.func, ast.Attribute) and \
                    node.func.attr == 'format' and isinstance(node.func.value, ast.Constant):
                found.append('%s:%d' % (fn, node.lineno))
    return found


class Loader(importlib.abc.Loader):
    def __init__(self, name, path):
        self.name, self.path = name, path

    def create_module(self, spec):
        return None

    def exec_module(self, module):
        src = open(self.path).read()
        tree = ast.parse(src, self.path)
        tree = _Rewrite(self.name).visit(tree)
        ast.fix_missing_locations(tree)
        module.__dict__['__vtick__'] = _tick
        module.__dict__['__vdict__'] = _vdict
        exec(compile(tree, self.path, 'exec'), module.__dict__)


class Finder(importlib.abc.MetaPathFinder):
    def find_spec(self, fullname, path, target=None):
        if fullname == 'pamqp' or fullname.startswith('pamqp.'):
            rel = fullname.replace('.', '/')
            pkg = os.path.join(ROOT, rel, '__init__.py')
            if os.path.exists(pkg):
                return importlib.util.spec_from_file_location(
                    fullname, pkg, loader=Loader(fullname, pkg),
                    submodule_search_locations=[os.path.dirname(pkg)])
            f = os.path.join(ROOT, rel + '.py')
            if os.path.exists(f):
                return importlib.util.spec_from_file_location(fullname, f, loader=Loader(fullname, f))
        return None


_installed = False


def install():
    global _installed
    if _installed:
        return
    for m in list(sys.modules):
        if m == 'pamqp' or m.startswith('pamqp.'):
            raise RuntimeError('pamqp imported before the instrumenting loader was installed')
    sys.meta_path.insert(0, Finder())
    _installed = True
