"""Work budget shared by the instrumenting loader (symbolic runs) and the replayer (concrete runs)."""


class FuelExhausted(BaseException):
    """Derives from BaseException so that a broad `except Exception` in the code under test cannot
    swallow it; a sticky flag is set as well."""


class Fuel:
    used = 0
    limit = 10 ** 12
    tripped = False
    functions = set()

    @classmethod
    def reset(cls, limit=10 ** 12):
        cls.used, cls.limit, cls.tripped = 0, limit, False


def tick(name=None):
    if name is not None:
        Fuel.functions.add(name)
    Fuel.used += 1
    if Fuel.used > Fuel.limit:
        Fuel.tripped = True
        raise FuelExhausted()
