"""CrossHair models for the C boundaries on pamqp's paths (see DESIGN.md section 2).

Call install() once per worker process, after `import crosshair.core_and_libs`.
"""
import operator as ops
import struct
from numbers import Integral

import z3
from crosshair import core as _core
from crosshair import opcode_intercept as _oi
from crosshair.core import realize, register_patch
from crosshair.libimpl import builtinslib as _bl
from crosshair.libimpl import structlib
from crosshair.libimpl.builtinslib import (PreciseIeeeSymbolicFloat,
                                           SymbolicBool, SymbolicBytes,
                                           SymbolicInt)
from crosshair.statespace import context_statespace
from crosshair.tracers import NoTracing
from crosshair.tracers import frame_stack_read as _fsr
from crosshair.tracers import frame_stack_write as _fsw
from crosshair.util import CrossHairValue

from symrt.cbytes import CBytes

STATS = {'bitop_realized': 0, 'fmt_cut': 0, 'struct_fallback': 0}

_INT_FORMATS = 'bBhHiIlLqQ'
_SIZES = {'b': (1, True), 'B': (1, False), 'h': (2, True), 'H': (2, False),
          'i': (4, True), 'I': (4, False), 'l': (4, True), 'L': (4, False),
          'q': (8, True), 'Q': (8, False)}

_orig_pack = structlib._pack
_orig_unpack = structlib._unpack


# --------------------------------------------------------------------------- struct: integers
def _fresh_byte(space):
    v = z3.Int('sb' + space.uniq())
    space.add(z3.And(v >= 0, v <= 255))
    return v


def _pack_symint(val, size, signed, fc):
    """tracing ON. val: SymbolicInt. Returns list of `size` SymbolicInt bytes (big endian)."""
    if signed:
        half = 1 << (8 * size - 1)
        if val < -half or val >= half:
            raise struct.error("'%s' format requires %d <= number <= %d" % (fc, -half, half - 1))
        neg = bool(val < 0)
    else:
        if val < 0 or val >= (1 << (8 * size)):
            raise struct.error("'%s' format requires 0 <= number <= %d" % (fc, (1 << (8 * size)) - 1))
        neg = False
    with NoTracing():
        space = context_statespace()
        bs = [_fresh_byte(space) for _ in range(size)]
        total = sum(b * (256 ** (size - 1 - i)) for i, b in enumerate(bs))
        if neg:
            space.add(total == val.var + (1 << (8 * size)))
        else:
            space.add(total == val.var)
        return [SymbolicInt(b) for b in bs]


def _unpack_int(chunk, size, signed):
    """tracing OFF. chunk: list of ints (symbolic or concrete), big endian."""
    if not any(isinstance(b, SymbolicInt) for b in chunk):
        return int.from_bytes(bytes(int(b) for b in chunk), 'big', signed=signed)
    total = z3.IntVal(0)
    for i, b in enumerate(chunk):
        e = b.var if isinstance(b, SymbolicInt) else z3.IntVal(int(b))
        total = total + e * (256 ** (size - 1 - i))
    if signed:
        b0 = chunk[0].var if isinstance(chunk[0], SymbolicInt) else z3.IntVal(int(chunk[0]))
        total = z3.If(b0 >= 128, total - (1 << (8 * size)), total)
    return SymbolicInt(z3.simplify(total))


# --------------------------------------------------------------------------- struct: floats
def sym_double_from_bits(bits):
    """bits: SymbolicInt in [0, 2**64) -> PreciseIeeeSymbolicFloat with those IEEE-754 bits."""
    with NoTracing():
        if not isinstance(bits, SymbolicInt):
            return struct.unpack('>d', struct.pack('>Q', int(bits)))[0]
        bv = z3.Int2BV(bits.var, 64)
        return PreciseIeeeSymbolicFloat(z3.fpBVToFP(bv, z3.Float64()))


def double_bits(x):
    """IEEE-754 bits of a float as an int (NaNs: some NaN encoding)."""
    with NoTracing():
        if isinstance(x, PreciseIeeeSymbolicFloat):
            return SymbolicInt(z3.BV2Int(z3.fpToIEEEBV(x.var)))
        return struct.unpack('>Q', struct.pack('>d', realize(x)))[0]


def _bv_bytes(bv, nbytes):
    out = []
    for i in range(nbytes):
        hi = 8 * (nbytes - i) - 1
        out.append(SymbolicInt(z3.BV2Int(z3.Extract(hi, hi - 7, bv))))
    return out


def _pack_float(val, fc):
    """tracing ON. val: PreciseIeeeSymbolicFloat."""
    with NoTracing():
        x = val.var
        if fc == 'd':
            return _bv_bytes(z3.fpToIEEEBV(x), 8)
        y = z3.fpFPToFP(z3.RNE(), x, z3.Float32())
        overflow = SymbolicBool(z3.And(z3.fpIsInf(y), z3.Not(z3.fpIsInf(x))))
    if overflow:
        raise OverflowError('float too large to pack with f format')
    with NoTracing():
        return _bv_bytes(z3.fpToIEEEBV(y), 4)


def _unpack_float(chunk, fc):
    """tracing OFF."""
    if not any(isinstance(b, SymbolicInt) for b in chunk):
        return struct.unpack('>' + fc, bytes(int(b) for b in chunk))[0]
    parts = []
    for b in chunk:
        if isinstance(b, SymbolicInt):
            parts.append(z3.Int2BV(b.var, 8))
        else:
            parts.append(z3.BitVecVal(int(b), 8))
    bv = z3.Concat(*parts)
    if fc == 'd':
        return PreciseIeeeSymbolicFloat(z3.fpBVToFP(bv, z3.Float64()))
    return PreciseIeeeSymbolicFloat(
        z3.fpFPToFP(z3.RNE(), z3.fpBVToFP(bv, z3.Float32()), z3.Float64()))


# --------------------------------------------------------------------------- struct: entry points
def _supported(prefix, items):
    if prefix in ('>', '!'):
        return all(fc in _INT_FORMATS + 'xfd' for fc, _ in items)
    return all(fc in 'bBx' for fc, _ in items)


def _pack(fmt, /, *args):
    with NoTracing():
        fmt_arg = realize(fmt)
        if isinstance(fmt_arg, bytes):
            fmt_arg = fmt_arg.decode('latin-1')
        any_sym = any(isinstance(a, CrossHairValue) for a in args)
        if any_sym:
            prefix, items = structlib._parse_format(fmt_arg)
            ok = _supported(prefix, items) and len(args) == structlib._pack_arg_count(items)
        else:
            ok = False
    if not ok:
        if any_sym:
            STATS['struct_fallback'] += 1
        return _orig_pack(fmt, *args)
    out = []
    argi = 0
    for fc, count in items:
        if fc == 'x':
            out.extend([0] * count)
            continue
        for _ in range(count):
            val = args[argi]
            argi += 1
            with NoTracing():
                symint = isinstance(val, SymbolicInt)
                symbool = isinstance(val, SymbolicBool)
                symflt = isinstance(val, PreciseIeeeSymbolicFloat)
                symother = isinstance(val, CrossHairValue)
            if fc in _INT_FORMATS:
                if symbool:
                    val = 1 if val else 0
                    out.extend(struct.pack('>' + fc, val))
                elif symint:
                    size, signed = _SIZES[fc]
                    out.extend(_pack_symint(val, size, signed, fc))
                elif symother:
                    if isinstance(val, int):
                        with NoTracing():
                            val = realize(val)
                        out.extend(struct.pack('>' + fc, val))
                    else:
                        raise struct.error('required argument is not an integer')
                else:
                    with NoTracing():
                        chunk = struct.pack('>' + fc, val)
                    out.extend(chunk)
            else:  # f / d
                if symflt:
                    out.extend(_pack_float(val, fc))
                else:
                    with NoTracing():
                        rv = realize(val)
                        chunk = struct.pack('>' + fc, rv)
                    out.extend(chunk)
    with NoTracing():
        return SymbolicBytes(out)


def _unpack(fmt, buffer, /):
    with NoTracing():
        fmt_arg = realize(fmt)
        if isinstance(fmt_arg, bytes):
            fmt_arg = fmt_arg.decode('latin-1')
        symbuf = isinstance(buffer, (SymbolicBytes, _bl.SymbolicByteArray))
        if symbuf:
            prefix, items = structlib._parse_format(fmt_arg)
            ok = _supported(prefix, items)
        else:
            ok = False
    if not ok:
        if symbuf:
            STATS['struct_fallback'] += 1
        return _orig_unpack(fmt, buffer)
    need = 0
    for fc, count in items:
        need += count * (1 if fc == 'x' else (4 if fc == 'f' else 8 if fc == 'd' else _SIZES[fc][0]))
    n = len(buffer)
    if n != need:
        raise struct.error('unpack requires a buffer of %d bytes' % need)
    data = [buffer[i] for i in range(need)]
    with NoTracing():
        off = 0
        results = []
        for fc, count in items:
            if fc == 'x':
                off += count
                continue
            for _ in range(count):
                if fc in _INT_FORMATS:
                    size, signed = _SIZES[fc]
                    results.append(_unpack_int(data[off:off + size], size, signed))
                else:
                    size = 4 if fc == 'f' else 8
                    results.append(_unpack_float(data[off:off + size], fc))
                off += size
        return tuple(results)


def _s_pack(self, *args):
    return _pack(self.format, *args)


def _s_unpack(self, buffer):
    return _unpack(self.format, buffer)


def _s_unpack_from(self, buffer, offset=0):
    size = self.size
    if offset < 0:
        offset = offset + len(buffer)
        if offset < 0:
            raise struct.error('offset %d out of range' % offset)
    chunk = buffer[offset:offset + size]
    if len(chunk) < size:
        raise struct.error('unpack_from requires a buffer of at least %d bytes' % size)
    return _unpack(self.format, chunk)


def _m_unpack_from(fmt, /, buffer, offset=0):
    return _s_unpack_from(struct.Struct(realize(fmt)), buffer, offset)


# --------------------------------------------------------------------------- formatting cut
def _str_format(self, /, *a, **kw):
    with NoTracing():
        if isinstance(self, str) and not any(
                isinstance(x, CrossHairValue) for x in list(a) + list(kw.values())):
            return self.format(*a, **kw)
        STATS['fmt_cut'] += 1
        return realize(self) if not isinstance(self, str) else self


# --------------------------------------------------------------------------- int()
def _make_int_patch(orig_int):
    def _int(val=0, *a, **kw):
        with NoTracing():
            special = (not a and not kw
                       and (isinstance(val, _bl.SymbolicFloat)
                            or type(val).__name__ in ('SymSeconds', 'SymRatio')))
        if special:
            return val.__int__()
        with NoTracing():
            plain = (not isinstance(val, CrossHairValue)
                     and not any(isinstance(x, CrossHairValue) for x in a)
                     and not any(isinstance(x, CrossHairValue) for x in kw.values()))
            if plain:
                return int(val, *a, **kw)
        return orig_int(val, *a, **kw)
    return _int


# --------------------------------------------------------------------------- bitwise
def _smt_int(x):
    if isinstance(x, SymbolicInt):
        return x.var
    if isinstance(x, SymbolicBool):
        return z3.If(x.var, 1, 0)
    return z3.IntVal(int(x))


def _runs(m):
    runs = []
    k = 0
    while m >> k:
        if (m >> k) & 1:
            lo = k
            while (m >> k) & 1:
                k += 1
            runs.append((lo, k - 1))
        else:
            k += 1
    return runs


def _and_const(ea, m):
    """ea >= 0 assumed; m > 0 constant."""
    tot = z3.IntVal(0)
    for lo, hi in _runs(m):
        tot = tot + ((ea / (1 << lo)) % (1 << (hi - lo + 1))) * (1 << lo)
    return tot


def _bitwise(op, a: Integral, b: Integral):
    with NoTracing():
        space = context_statespace()
        asym = isinstance(a, (SymbolicInt, SymbolicBool))
        bsym = isinstance(b, (SymbolicInt, SymbolicBool))
        if asym and bsym:
            ea, eb = _smt_int(a), _smt_int(b)
            width = None
            for w in (1, 8, 16):
                lim = 1 << w
                if not space.is_possible(z3.Or(ea < 0, ea >= lim, eb < 0, eb >= lim)):
                    width = w
                    break
            if width is None:
                STATS['bitop_realized'] += 1
                return op(realize(a), realize(b))
            if op is ops.or_ and width > 1:
                # fast path: one operand is a single flag bit {0, 2**k} and that bit is clear in
                # the other operand  ->  a | b == a + b  (keeps flag accumulation linear)
                for x, y in ((ea, eb), (eb, ea)):
                    for k in range(width):
                        if space.is_possible(z3.And(y != 0, y != (1 << k))):
                            continue
                        if not space.is_possible((x / (1 << k)) % 2 == 1):
                            STATS['or_as_add'] = STATS.get('or_as_add', 0) + 1
                            return SymbolicInt(x + y)
                        break
            tot = z3.IntVal(0)
            for k in range(width):
                ak = (ea / (1 << k)) % 2
                bk = (eb / (1 << k)) % 2
                if op is ops.and_:
                    bit = z3.If(z3.And(ak == 1, bk == 1), 1, 0)
                elif op is ops.or_:
                    bit = z3.If(z3.Or(ak == 1, bk == 1), 1, 0)
                else:
                    bit = z3.If(ak != bk, 1, 0)
                tot = tot + bit * (1 << k)
            return SymbolicInt(tot)
        if bsym:
            a, b = b, a
        m = int(b)
        if m == 0:
            return 0 if op is ops.and_ else a
        ea = _smt_int(a)
        if m < 0 or op is ops.xor:
            STATS['bitop_realized'] += 1
            return op(realize(a), m)
        if space.smt_fork(ea >= 0, probability_true=0.75):
            base = _and_const(ea, m)
        else:
            base = m - _and_const(-ea - 1, m)
        if op is ops.and_:
            return SymbolicInt(base)
        return SymbolicInt(ea + m - base)


def _int_truediv(op, a: SymbolicInt, b: float):
    """symbolic_int / c for a positive integer-valued float constant c stays exact (symdt.SymRatio)"""
    with NoTracing():
        ok = type(b) is float and b > 0 and b == int(b) and b < 2 ** 53
    if ok:
        from symrt.symdt import SymRatio
        return SymRatio(a, int(b))
    return _bl.numeric_binop(op, a.__float__(), b)


# --------------------------------------------------------------------------- dispatch table lookup
class ForkingLookup:
    def __init__(self, d):
        self.d = d

    def __getitem__(self, key):
        for k, v in self.d.items():
            if key == k:
                return v
        raise KeyError(key)


class _Subscript(_oi.SymbolicSubscriptInterceptor):
    def trace_op(self, frame, codeobj, codenum):
        if codenum == _oi.BINARY_OP and _oi.frame_op_arg(frame) != 26:
            return
        key = _fsr(frame, -1)
        if isinstance(key, SymbolicInt):
            container = _fsr(frame, -2)
            if (type(container) is dict and container
                    and all(isinstance(v, type) for v in container.values())):
                _fsw(frame, -2, ForkingLookup(container))
                return
        return super().trace_op(frame, codeobj, codenum)


# --------------------------------------------------------------------------- install
_INSTALLED = False


def install():
    global _INSTALLED
    if _INSTALLED:
        return
    _INSTALLED = True
    reg = _core._PATCH_REGISTRATIONS
    reg[str.format] = _str_format
    reg[struct.pack] = _pack
    reg[struct.unpack] = _unpack
    reg[struct.unpack_from] = _m_unpack_from
    register_patch(struct.Struct.pack, _s_pack)
    register_patch(struct.Struct.unpack, _s_unpack)
    register_patch(struct.Struct.unpack_from, _s_unpack_from)
    reg[int] = _make_int_patch(reg[int])
    _bl.setup_binop(_bitwise, {ops.and_, ops.or_, ops.xor})
    _bl.setup_binop(_int_truediv, {ops.truediv})
    _bl._BIN_OPS.clear()
    for i, m in enumerate(_core._OPCODE_PATCHES):
        if type(m) is _oi.SymbolicSubscriptInterceptor:
            _core._OPCODE_PATCHES[i] = _Subscript()
    from symrt import symdt
    symdt.install()
