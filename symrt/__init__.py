"""symrt - the modelling layer that stands between CrossHair/z3 and CPython on pamqp's paths.

Every model here is part of the trusted base of a "holds" verdict and is differentially
tested against CPython by symrt.selftest on every run.  Counterexamples never rest on these
models: they are replayed on the uninstrumented code by engine.replay.
"""

MODELS = [
    "struct.Struct.pack/unpack/unpack_from + struct.pack: linear fresh-byte integer packing, "
    "clamped-slice unpack_from (symrt.models)",
    "IEEE binary32/binary64 pack/unpack in z3 FP theory on PreciseIeeeSymbolicFloat (symrt.models)",
    "CBytes: concrete-length byte buffer with symbolic contents and clamped symbolic slice bounds "
    "(symrt.cbytes)",
    "constant-mask & and |: div/mod arithmetic over runs of set bits; symbolic-by-symbolic within "
    "8/16 bits bitwise by div/mod, else realization (symrt.models)",
    "hash-free dict (CrossHair ShellMutableMap/SimpleDict) substituted for '{}' in pamqp/decode.py "
    "(symrt.loader)",
    "exception/warning message formatting and LOGGER calls cut at AST level; str.format with a "
    "symbolic argument returns the template (symrt.loader, symrt.models)",
    "forking linear lookup for dict-of-classes subscripted by a symbolic int "
    "(INDEX_MAPPING; symrt.models)",
    "SymDT: abstract datetime (wall seconds, microsecond, utc offset) with integer-only timestamp(); "
    "local time zone is a fresh symbolic offset per query (symrt.symdt)",
    "int() of symbolic float / SymSeconds stays symbolic (symrt.models)",
]
