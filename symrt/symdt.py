"""SymDT: an abstract datetime for symbolic execution (DESIGN.md section 2, item 8).

A SymDT carries   wall = seconds since 1970-01-01T00:00:00 of its wall-clock reading,
                  us   = microsecond 0..999999,
                  off  = utc offset in seconds, or None for a naive value,
all (possibly symbolic) integers.  Calendar arithmetic is CPython's business and is not modelled.

The process time zone is a nondeterministic environment: every API that consults it obtains a
fresh offset from ENV (symbolic ints supplied by the harness; may differ per query = DST).
"""
import calendar
import datetime
import time

UTC = datetime.timezone.utc
MAX_EPOCH = 253402300799  # 9999-12-31T23:59:59Z


class LocalEnv:
    def __init__(self, offsets):
        self.offsets = list(offsets)
        self.used = 0

    def offset(self):
        o = self.offsets[self.used % len(self.offsets)]
        self.used += 1
        return o


ENV = [LocalEnv([0])]


def set_env(offsets):
    ENV[0] = LocalEnv(offsets)


def _unsupported(what):
    from crosshair.util import CrosshairUnsupported
    raise CrosshairUnsupported('SymDT: ' + what)


class _SymTZ(datetime.tzinfo):
    def __init__(self, off):
        self._off = off

    def utcoffset(self, dt):
        return _SymDelta(self._off)

    def __eq__(self, other):
        if other is UTC:
            return self._off == 0
        if isinstance(other, _SymTZ):
            return self._off == other._off
        return NotImplemented

    __hash__ = None


class _SymDelta:
    """timedelta stand-in: only None-ness, total_seconds() and == are supported."""

    def __init__(self, secs, us=0):
        self.secs = secs
        self.us = us          # 0 <= us < 10**6, as timedelta normalises

    def total_seconds(self):
        if _is_zero(self.us):
            return self.secs
        return SymSeconds(self.secs, self.us)

    # timedelta normalises to days >= any sign, 0 <= seconds < 86400
    @property
    def days(self):
        return self.secs // 86400

    @property
    def seconds(self):
        return self.secs % 86400

    @property
    def microseconds(self):
        return self.us

    def __bool__(self):
        if self.secs != 0:          # decided here: __bool__ must return a real bool
            return True
        return False

    def __neg__(self):
        return _SymDelta(-self.secs)

    def __sub__(self, other):
        if isinstance(other, _SymDelta):
            return _SymDelta(self.secs - other.secs)
        if isinstance(other, datetime.timedelta) and other.microseconds == 0:
            return _SymDelta(self.secs - (other.days * 86400 + other.seconds))
        return NotImplemented

    def __add__(self, other):
        if isinstance(other, _SymDelta):
            return _SymDelta(self.secs + other.secs)
        if isinstance(other, datetime.timedelta) and other.microseconds == 0:
            return _SymDelta(self.secs + (other.days * 86400 + other.seconds))
        return NotImplemented

    def __eq__(self, other):
        if isinstance(other, _SymDelta):
            return self.secs == other.secs
        if isinstance(other, datetime.timedelta):
            return other.microseconds == 0 and self.secs == other.days * 86400 + other.seconds
        return NotImplemented

    __hash__ = None


class SymSeconds:
    """float stand-in for sec + us/10**6 (0 <= us < 10**6); supports int() (truncation toward
    zero) and nothing else.  The gap to binary64 is lemma K3 (DESIGN.md 1.2)."""

    def __init__(self, sec, us):
        self.sec, self.us = sec, us

    def __int__(self):
        if self.sec < 0 and self.us > 0:
            return self.sec + 1
        return self.sec

    __trunc__ = __int__

    def __floor__(self):
        return self.sec

    def __round__(self, nd=None):
        if nd is not None:
            _unsupported('round(timestamp, n)')
        if self.us > 500000 or (self.us == 500000 and self.sec % 2 == 1):
            return self.sec + 1
        return self.sec

    def __index__(self):
        raise TypeError("'float' object cannot be interpreted as an integer")

    def __add__(self, n):
        if isinstance(n, int):
            return SymSeconds(self.sec + n, self.us)
        _unsupported('timestamp + %s' % type(n).__name__)

    __radd__ = __add__

    def __sub__(self, n):
        if isinstance(n, int):
            return SymSeconds(self.sec - n, self.us)
        _unsupported('timestamp - %s' % type(n).__name__)

    def __floordiv__(self, other):
        if other == 1:
            return self.sec
        _unsupported('timestamp // x')


class SymRatio:
    """exact stand-in for `symbolic_int / positive_integer_valued_float` (e.g. ts / 1000.0): comparisons
    with constants, int(), floor and the seconds/microsecond split are done in integer arithmetic.
    Binary64 rounding of the quotient (<= 1 ulp, i.e. < 32 us at year 9999) is outside the model.
    Any other operation falls back to CrossHair's real-valued symbolic float."""

    def __init__(self, num, den):
        self.num, self.den = num, den

    def _bound(self, c):
        from fractions import Fraction
        t = Fraction(c) * self.den
        return t, t.denominator == 1

    def __lt__(self, c):
        if isinstance(c, SymRatio):
            return self.num * c.den < c.num * self.den
        t, exact = self._bound(c)
        return self.num < int(t) if exact else self.num <= t.__floor__()

    def __le__(self, c):
        if isinstance(c, SymRatio):
            return self.num * c.den <= c.num * self.den
        t, exact = self._bound(c)
        return self.num <= t.__floor__()

    def __gt__(self, c):
        return not self.__le__(c)

    def __ge__(self, c):
        return not self.__lt__(c)

    def __eq__(self, c):
        if isinstance(c, SymRatio):
            return self.num * c.den == c.num * self.den
        t, exact = self._bound(c)
        return exact and self.num == int(t)

    def __ne__(self, c):
        return not self.__eq__(c)

    __hash__ = None

    def __int__(self):
        if self.num >= 0:
            return self.num // self.den
        return -((-self.num) // self.den)

    __trunc__ = __int__

    def __floor__(self):
        return self.num // self.den

    def __float__(self):
        return float(self.num) / float(self.den)

    def split(self):
        secs = self.num // self.den
        frac = self.num - secs * self.den
        us = (frac * 1000000 + self.den // 2) // self.den
        if us >= 1000000:
            secs, us = secs + 1, us - 1000000
        return secs, us

    def _real(self):
        return self.num.__float__() / float(self.den) if hasattr(self.num, 'var') else self.num / float(self.den)

    def __add__(self, o): return self._real() + o
    def __radd__(self, o): return o + self._real()
    def __sub__(self, o): return self._real() - o
    def __rsub__(self, o): return o - self._real()
    def __mul__(self, o): return self._real() * o
    def __rmul__(self, o): return o * self._real()
    def __truediv__(self, o): return self._real() / o
    def __floordiv__(self, o): return self._real() // o
    def __mod__(self, o): return self._real() % o
    def __neg__(self): return -self._real()
    def __round__(self, nd=None): return round(self._real(), nd) if nd is not None else round(self._real())


class SymST:
    """time.struct_time stand-in carrying only `wall` = seconds since 1970-01-01T00:00 of the
    broken-down reading.  isinstance(x, time.struct_time) is true under CrossHair's type() patch;
    calendar.timegm / time.mktime are patched to accept it; field access is not modelled."""

    def __init__(self, wall, gmtoff=None):
        self.wall = wall
        self.tm_gmtoff = gmtoff      # None (as from datetime.timetuple()) or seconds east of UTC
        self.tm_zone = None if gmtoff is None else 'XXX'
        self.tm_isdst = -1

    def __ch_pytype__(self):
        return time.struct_time

    def __getattr__(self, name):
        if name.startswith('tm_'):
            _unsupported('struct_time.' + name)
        raise AttributeError(name)

    def __getitem__(self, i):
        _unsupported('struct_time[i]')

    def __iter__(self):
        _unsupported('iter(struct_time)')


class SymDT(datetime.datetime):
    def __new__(cls, wall, us, off, lazy_ts=None):
        from crosshair.tracers import NoTracing
        with NoTracing():
            self = datetime.datetime.__new__(cls, 2000, 1, 1)
        self._w, self._u, self._off, self._lazy = wall, us, off, lazy_ts
        return self

    # a value built from a symbolic *float* timestamp is split into (seconds, microsecond) only when
    # somebody looks at it: the Int/Real mixing of that split is expensive for the solver
    def _force(self):
        if self._lazy is not None:
            secs, us = _split(self._lazy)
            self._w, self._u, self._lazy = secs + (self._off or 0), us, None

    @property
    def _wall(self):
        self._force()
        return self._w

    @property
    def _us(self):
        self._force()
        return self._u

    # ---- attributes pamqp (or a variant of it) may read
    @property
    def tzinfo(self):
        return None if self._off is None else (UTC if _is_zero(self._off) else _SymTZ(self._off))

    @property
    def microsecond(self):
        return self._us

    def utcoffset(self):
        return None if self._off is None else _SymDelta(self._off)

    def replace(self, tzinfo=True, **kw):
        if 'microsecond' in kw and len(kw) == 1:
            us = kw['microsecond']
            base = self if tzinfo is True else self.replace(tzinfo=tzinfo)
            return SymDT(base._wall, us, base._off)
        if kw:
            _unsupported('replace(%s)' % ','.join(kw))
        if tzinfo is True:
            return SymDT(self._wall, self._us, self._off)
        if tzinfo is None:
            return SymDT(self._wall, self._us, None)
        if tzinfo is UTC:
            return SymDT(self._wall, self._us, 0)
        if isinstance(tzinfo, _SymTZ):
            return SymDT(self._wall, self._us, tzinfo._off)
        if isinstance(tzinfo, datetime.timezone):
            return SymDT(self._wall, self._us, int(tzinfo.utcoffset(None).total_seconds()))
        _unsupported('replace(tzinfo=%r)' % (tzinfo,))

    def epoch(self):
        """absolute instant in whole seconds (local environment consulted for naive values)"""
        if self._off is None:
            return self._wall - ENV[0].offset()
        return self._wall - self._off

    def timestamp(self):
        return SymSeconds(self.epoch(), self._us)

    def astimezone(self, tz=None):
        ep = self.epoch()
        if tz is None:
            o = ENV[0].offset()
            return SymDT(ep + o, self._us, o)
        if tz is UTC:
            return SymDT(ep, self._us, 0)
        if isinstance(tz, _SymTZ):
            return SymDT(ep + tz._off, self._us, tz._off)
        if isinstance(tz, datetime.timezone):
            o = int(tz.utcoffset(None).total_seconds())
            return SymDT(ep + o, self._us, o)
        _unsupported('astimezone(%r)' % (tz,))

    def timetuple(self):
        # broken-down wall-clock reading; the utc offset is NOT part of a struct_time
        return SymST(self._wall)

    def utctimetuple(self):
        return SymST(self._wall if self._off is None else self._wall - self._off)

    def __eq__(self, other):
        if not isinstance(other, SymDT):
            return NotImplemented
        if (self._off is None) != (other._off is None):
            return False
        if self._off is None:
            return self._wall == other._wall and self._us == other._us
        return (self._wall - self._off) == (other._wall - other._off) and self._us == other._us

    def __ne__(self, other):
        r = self.__eq__(other)
        return r if r is NotImplemented else not r

    def __sub__(self, other):
        if isinstance(other, SymDT):
            if (self._off is None) != (other._off is None):
                raise TypeError("can't subtract offset-naive and offset-aware datetimes")
            if self._off is None:
                d = self._wall - other._wall
            else:
                d = (self._wall - self._off) - (other._wall - other._off)
            if _is_zero(self._us) and _is_zero(other._us):
                return _SymDelta(d)
            _unsupported('datetime difference with microseconds')
        if isinstance(other, datetime.datetime):
            # e.g. value - datetime(1970, 1, 1[, tzinfo=utc])
            if (self._off is None) != (other.tzinfo is None):
                raise TypeError("can't subtract offset-naive and offset-aware datetimes")
            if other.tzinfo is None:
                base = _real_timegm(other.timetuple())
                d = self._wall - base
            else:
                base = int(other.timestamp())
                d = (self._wall - self._off) - base
            if other.microsecond == 0:
                return _SymDelta(d, self._us)
            _unsupported('datetime difference with microseconds')
        _unsupported('datetime - %s' % type(other).__name__)

    __hash__ = None

    def __repr__(self):
        return 'SymDT(...)'


def _is_zero(x):
    from crosshair.tracers import NoTracing
    with NoTracing():
        return type(x) is int and x == 0


# ------------------------------------------------------------------ patched environment functions
def _split(ts):
    """-> (whole seconds, microseconds) of a timestamp given as int / SymSeconds / symbolic float."""
    from crosshair.tracers import NoTracing
    with NoTracing():
        from crosshair.libimpl.builtinslib import SymbolicInt
        kind = ('int' if isinstance(ts, (int, SymbolicInt)) else
                'sym' if isinstance(ts, SymSeconds) else
                'ratio' if isinstance(ts, SymRatio) else 'float')
    if kind == 'int':
        return ts, 0
    if kind == 'sym':
        return ts.sec, ts.us
    if kind == 'ratio':
        return ts.split()
    secs = ts // 1
    us = round((ts - secs) * 1000000)
    secs = int(secs)
    us = int(us)
    if us >= 1000000:
        secs, us = secs + 1, us - 1000000
    return secs, us


def _is_symbolic_float(ts):
    from crosshair.tracers import NoTracing
    with NoTracing():
        from crosshair.libimpl.builtinslib import SymbolicInt
        return not isinstance(ts, (int, SymbolicInt, SymSeconds))


def _fromtimestamp(ts, tz=None):
    if _is_symbolic_float(ts) and (tz is UTC):
        # range check on the float itself (linear real arithmetic); split lazily
        if ts < -62135596800.0 or ts >= 253402300800.0:
            raise ValueError('year out of range')
        return SymDT(None, None, 0, lazy_ts=ts)
    secs, us = _split(ts)
    if secs < -62135596800 or secs > MAX_EPOCH:
        raise ValueError('year out of range')
    if tz is None:
        return SymDT(secs + ENV[0].offset(), us, None)
    if tz is UTC:
        return SymDT(secs, us, 0)
    if isinstance(tz, datetime.timezone):
        o = int(tz.utcoffset(None).total_seconds())
        return SymDT(secs + o, us, o)
    _unsupported('fromtimestamp(tz=%r)' % (tz,))


def _utcfromtimestamp(ts):
    secs, us = _split(ts)
    if secs < -62135596800 or secs > MAX_EPOCH:
        raise ValueError('year out of range')
    return SymDT(secs, us, None)


_real_mktime = time.mktime
_real_timegm = calendar.timegm


def _is_symst(st):
    from crosshair.tracers import NoTracing
    with NoTracing():
        return type(st) is SymST


def _mktime(st):
    if _is_symst(st):
        return SymSeconds(st.wall - ENV[0].offset(), 0)
    return SymSeconds(_real_timegm(st) - ENV[0].offset(), 0)


def _timegm(st):
    if _is_symst(st):
        return st.wall
    return _real_timegm(st)


def install():
    from crosshair import core as _c
    from crosshair.core import register_patch
    reg = _c._PATCH_REGISTRATIONS
    reg[datetime.datetime.fromtimestamp] = _fromtimestamp
    reg[datetime.datetime.utcfromtimestamp] = _utcfromtimestamp
    reg[time.mktime] = _mktime
    reg[calendar.timegm] = _timegm
