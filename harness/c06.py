"""C06 - decoding consumes exactly one frame and ignores what follows it."""
from engine.part import Part
from harness import buffers, common
from harness.common import spec

META = {
    'level': 'model_checking',
    'claim': '(a) Inductive step for streams: for a valid frame of each kind built from symbolic values '
             'followed by ARBITRARY trailing bytes t, frame.unmarshal returns the frame\'s exact length '
             'and the same channel and contents as without t - one step covers concatenations of any '
             'length because the next decode again sees "frame + rest"; multi-frame streams (incl. a '
             'header with properties followed by one without) are decoded in a loop as a sanity twin. '
             '(b) Envelope clause: on arbitrary buffers, whenever decoding succeeds the kind, channel and '
             'count are those of the 7-byte header, the last consumed byte is 0xCE, count <= len, and a '
             'protocol header is returned only for input starting with "AMQP" (count 8).',
    'trusted': 'CrossHair + z3; symrt models.',
    'bounds': {
        'quick': '(a) method frames of 8 classes (symbolic arguments), content header, body (1..4 bytes), '
                 'heartbeat, protocol header, each + 4 arbitrary trailing bytes (+ 8 for heartbeat / body); '
                 '5-frame streams with symbolic values; (b) raw buffers 0..13 bytes, per-class envelopes '
                 'with {2, 5} arbitrary argument bytes, header envelopes',
        'thorough': '(a) all 64 classes, 8 trailing bytes; (b) raw 0..16, {2, 5, 8} argument bytes',
    },
    'outside': 'trailing data longer than the bound (the decoder never reads past byte_count)',
    'cuts': ['exception message formatting'],
}

PRE = common.PRELUDE + common.TABLE_HELPER + '''
def same_frame(a, b):
    if type(a) is not type(b):
        return False
    if isinstance(a, base.Frame):
        la, lb = list(a), list(b)
        if len(la) != len(lb):
            return False
        for (ka, va), (kb, vb) in zip(la, lb):
            if ka != kb or va != vb:
                return False
        return True
    if type(a) is header.ContentHeader:
        return a.body_size == b.body_size and a.properties == b.properties
    if type(a) is _body.ContentBody:
        return a.value == b.value
    if type(a) is header.ProtocolHeader:
        return (a.major_version, a.minor_version, a.revision) == (b.major_version, b.minor_version, b.revision)
    return type(a) is heartbeat.Heartbeat


def step(data, t, n):
    """one frame followed by n arbitrary bytes decodes exactly like the frame alone"""
    data = hx.fix(data)
    c1, ch1, f1 = frame.unmarshal(data)
    c2, ch2, f2 = frame.unmarshal(data + hx.buf(hx.blist(t, n)))
    return c1 == len(data) and c2 == c1 and ch2 == ch1 and same_frame(f1, f2)
'''

QUICK_CLASSES = ['Basic.Ack', 'Basic.Publish', 'Basic.Deliver', 'Queue.Declare', 'Connection.Start',
                 'Connection.Tune', 'Channel.Close', 'Tx.Commit']


def _method_step(m, tl, timeout):
    from harness.c07 import _fixed_strings
    nstr = sum(1 for _, t, _ in m['args'] if t in ('shortstr', 'longstr'))
    fixed = _fixed_strings(m) if nstr >= 2 else {}
    for a, t, _ in m['args']:
        if t == 'table':
            fixed[a] = {'k': -129}
    params, pre, ctor, checks, rep = common.method_params(m, 1, fixed=fixed)
    names = ['ch'] + [p for p, _ in params] + ['t']
    body = '\n'.join([
        'def body(%s):' % ', '.join(names),
        '    try:',
        '        data = frame.marshal(%s(%s), ch)' % (common.cls_expr(m['name']), ', '.join(ctor)),
        '    except ValueError:',
        '        return hx.rejected()',
        '    return step(data, t, %d)' % tl])
    return Part(name='step_' + common.safe(m['name']), params=[('ch', 'int')] + params + [('t', 'bytes')],
                pre=['0 <= ch <= 65535'] + pre + ['len(t) == %d' % tl], body=body, prelude=PRE,
                timeout=timeout, family='step_method',
                bound='%s with symbolic arguments + %d arbitrary trailing bytes' % (m['name'], tl),
                rep=dict(rep, ch=2, t={'__bytes__': ('ce414d5101000100' * 2)[:2 * tl]}))


STREAM = '''
def body(ch, tag, size, prio, ct, content, a, b, c):
    cb = hx.buf(hx.blist(content, 3))
    p1 = commands.Basic.Properties(content_type=ct, priority=prio, headers=hx.table([("k", 1)]))
    frames = [commands.Basic.Deliver("ct", tag, True, "ex", "rk"),
              header.ContentHeader(0, size, p1),
              _body.ContentBody(cb),
              header.ContentHeader(0, size),                 # no properties after one with properties
              heartbeat.Heartbeat(),
              commands.Basic.Ack(tag, False),
              _body.ContentBody(cb)]
    chans = [ch, ch, ch, (ch + 1) % 65536, 0, ch, 7]
    buf = hx.buf([])
    for f, cn in zip(frames, chans):
        buf = buf + hx.fix(frame.marshal(f, cn))
    out = []
    guard = 0
    while len(buf) > 0:
        guard += 1
        if guard > 10:
            return False
        n, cn, f = frame.unmarshal(buf)
        if n <= 0 or n > len(buf):
            return False
        out.append((cn, f))
        buf = buf[n:]
    if len(out) != len(frames):
        return False
    ok = True
    for (cn, f), want, wc in zip(out, frames, chans):
        ok = ok and cn == wc and same_frame(f, want)
    # objects of separate decodes never share property objects
    ok = ok and out[1][1].properties is not out[3][1].properties
    h2 = out[3][1].properties
    ok = ok and h2.content_type is None and h2.priority is None and h2.headers is None
    return ok
'''


def partitions(tier, seed):
    q = tier == 'quick'
    tl = 4 if q else 8
    parts = []
    for m in spec.METHODS:
        if q and m['name'] not in QUICK_CLASSES:
            continue
        parts.append(_method_step(m, tl, 200 if q else 480))
    parts.append(Part('step_heartbeat', [('ch', 'int'), ('t', 'bytes')], ['0 <= ch <= 65535', 'len(t) == 8'],
                      'def body(ch, t):\n    return step(hx.buf([8, ch // 256, ch % 256, 0, 0, 0, 0, 0xCE]), t, 8)\n',
                      PRE, 100, family='step_fixed', bound='heartbeat on any channel + 8 arbitrary bytes',
                      rep={'ch': 0, 't': {'__bytes__': '0800000000000000'}}))
    parts.append(Part('step_protocol_header', [('a', 'int'), ('b', 'int'), ('c', 'int'), ('t', 'bytes')],
                      ['0 <= a <= 255', '0 <= b <= 255', '0 <= c <= 255', 'len(t) == 8'],
                      'def body(a, b, c, t):\n    return step(frame.marshal(header.ProtocolHeader(a, b, c), 0), t, 8)\n',
                      PRE, 100, family='step_fixed', bound='protocol header (all triples) + 8 arbitrary bytes',
                      rep={'a': 0, 'b': 9, 'c': 1, 't': {'__bytes__': '414d515000000901'}}))
    for n in (range(1, 5) if q else range(1, 9)):
        parts.append(Part('step_body_%d' % n, [('ch', 'int'), ('content', 'bytes'), ('t', 'bytes')],
                          ['0 <= ch <= 65535', 'len(content) == %d' % n, 'len(t) == 8'],
                          'def body(ch, content, t):\n'
                          '    return step(frame.marshal(_body.ContentBody(hx.buf(hx.blist(content, %d))), ch), t, 8)\n' % n,
                          PRE, 100, family='step_body', bound='all bodies of length %d + 8 arbitrary bytes' % n,
                          rep={'ch': 1, 'content': {'__bytes__': 'ce' * n}, 't': {'__bytes__': 'ce00000000000000'}}))
    parts.append(Part('step_header', [('ch', 'int'), ('size', 'int'), ('prio', 'int'), ('ct', 'str'), ('ts', 'int'), ('t', 'bytes')],
                      ['0 <= ch <= 65535', '0 <= size < 2**64', '0 <= prio <= 255', 'len(ct) <= 1', '0 <= ts < 2**32',
                       'len(t) == %d' % tl],
                      'def body(ch, size, prio, ct, ts, t):\n'
                      '    p = commands.Basic.Properties(content_type=ct, priority=prio, timestamp=hx.dt(ts, 0, 0),\n'
                      '                                  headers=hx.table([("k", 1)]))\n'
                      '    return step(frame.marshal(header.ContentHeader(0, size, p), ch), t, %d)\n' % tl,
                      PRE, 200, family='step_header', bound='content header with 4 properties + %d arbitrary bytes' % tl,
                      rep={'ch': 1, 'size': 5, 'prio': 1, 'ct': 'x', 'ts': 9, 't': {'__bytes__': ('02000100000000' * 2)[:2 * tl]}}))
    parts.append(Part('stream7', [('ch', 'int'), ('tag', 'int'), ('size', 'int'), ('prio', 'int'), ('ct', 'str'),
                                  ('content', 'bytes'), ('a', 'int'), ('b', 'int'), ('c', 'int')],
                      ['0 <= ch <= 65535', '0 <= tag < 2**63', '0 <= size < 2**64', '0 <= prio <= 255',
                       'len(ct) == 1', 'len(content) == 3', '0 <= a <= 255', '0 <= b <= 255', '0 <= c <= 255'],
                      STREAM, PRE, 250, family='stream',
                      bound='7-frame stream (method, header with properties, body, header without, heartbeat, '
                            'method, body) with symbolic values on mixed channels',
                      rep={'ch': 65535, 'tag': 1, 'size': 3, 'prio': 0, 'ct': 'j', 'content': {'__bytes__': 'ce0102'},
                           'a': 0, 'b': 9, 'c': 1}))
    if q:
        env = buffers.parts_for('c06', tier, raw_max=13, m_extra=(2, 5), hdr_extra=(2, 3),
                                table_classes=[], table_tags=[], timeout=150)
    else:
        env = buffers.parts_for('c06', tier, raw_max=16, m_extra=(2, 5, 8), hdr_extra=(2, 3, 4),
                                table_classes=[], table_tags=[], timeout=480)
    for p in env:
        p.name = 'env_' + p.name
    parts += env
    parts.append(Part('twin_step_body', [('ch', 'int'), ('content', 'bytes'), ('t', 'bytes')],
                      ['0 <= ch <= 65535', 'len(content) == 2', 'len(t) == 2'],
                      'def body(ch, content, t):\n'
                      '    return not step(frame.marshal(_body.ContentBody(hx.buf(hx.blist(content, 2))), ch), t, 2)\n',
                      PRE, 60, expect='refuted', family='step_body', bound='vacuity twin'))
    return parts
