"""C08 - decoding any byte string terminates with bounded work and memory."""
from harness import buffers
from harness.rxamb import kernels  # noqa: F401  (K4: regex loops applied by the decoders)

META = {
    'level': 'model_checking',
    'claim': 'The instrumenting loader counts a tick at every loop head and function entry of pamqp; '
             'each decode call runs under a budget of %d*len(input)+%d ticks, so non-termination '
             'becomes an assertion failure on a symbolic path instead of a time-out. frame.unmarshal '
             'and the bare table/array/value decoders are explored on arbitrary byte strings and on '
             'valid envelopes whose inner length fields, tags and flag words are arbitrary; decoded '
             'containers may not have more entries than input bytes (memory clause). Kernel K4 (SMT, '
             'strings of any length): every regular expression applied by code reachable from the decoders '
             'is translated from the current source and each unbounded repeat is shown unambiguous, so the '
             're engine cannot backtrack exponentially on decoded text.'
             % (buffers.FUEL_FACTOR, buffers.FUEL_SLACK),
    'trusted': 'CrossHair + z3; symrt models; the tick instrumentation (AST rewrite, regenerated from '
               'the current source on every run); replay uses a sys.settrace line budget + wall clock; a '
               'counterexample that passes the (generous) replay budget is re-run with each 4-octet window '
               'inflated to 0x00ffffff before it is given up as a harness error; K4: z3 sequence/regex theory, '
               'translation through re._parser, name-based reachability from decode.* / unmarshal / '
               'frame_parts, CPU-time growth as the replay criterion.',
    'bounds': {
        'quick': 'raw buffers 0..13; per method class envelope + {2, 5} arbitrary argument bytes; '
                 'Queue.Declare / content-header tables: arbitrary 4-byte length, '
                 'arbitrary key byte, every tag, up to 4 arbitrary value bytes (covers an array whose '
                 'declared length exceeds the data); content header 12 arbitrary fixed bytes + '
                 '{2, 3} flag/property bytes (covers any flag word with the continuation bit); '
                 'decode.field_table <= 8, field_array <= 7, embedded_value <= 7 arbitrary bytes',
        'thorough': 'raw 0..16; {2, 5, 8} argument bytes; all table-carrying classes; header up to 5; '
                    'bare decoders up to 10/9/9 bytes',
    },
    'outside': 'a hang or super-linear blow-up that needs more set-up bytes than the bound; running '
               'time as such (only loop/call counts are measured, plus - kernel K4 - exponential '
               'backtracking of any regular expression the decoders apply: every unbounded repeat B* is '
               'shown unambiguous, w in L(B) and w in L(B B+) unsat, for words of any length); time '
               'spent inside other C-level calls',
    'cuts': ['exception message formatting'],
}


def partitions(tier, seed):
    from harness.c09 import TABLE_CLASSES_ALL
    parts = _partitions(tier, seed)
    for p in parts:
        p.amplify = True
    return parts


def _partitions(tier, seed):
    from harness.c09 import TABLE_CLASSES_ALL
    if tier == 'quick':
        return buffers.parts_for('c08', tier, raw_max=13, m_extra=(2, 5), hdr_extra=(2, 3),
                                 table_classes=['Queue.Declare'],
                                 table_tags=buffers.TAGS, timeout=150, dec_max=(8, 7, 7))
    return buffers.parts_for('c08', tier, raw_max=16, m_extra=(2, 5, 8), hdr_extra=(2, 3, 4, 5),
                             table_classes=TABLE_CLASSES_ALL, table_tags=buffers.TAGS, timeout=480,
                             dec_max=(10, 9, 9))
