"""C18 - body, heartbeat and protocol-header frames round-trip on every channel."""
from engine.part import Part
from harness import common

META = {
    'tier_note': 'quick and thorough use the same (thorough) bounds for this property',
    'level': 'model_checking',
    'claim': 'Content bodies of every length in the bound with all byte values symbolic (so 0xCE, '
             '"AMQP" and header look-alikes are included by construction), every channel, and all '
             '256^3 protocol-header version triples are pushed through the real marshal/unmarshal '
             'symbolically; byte-exact expectations come from the independent reference codec.',
    'trusted': 'CrossHair + z3; symrt struct/CBytes models; spec/refcodec.py.',
    'bounds': {'quick': 'body lengths 1..32 (every length), all contents, all channels; sample lengths 255..131072 '
                        'with concrete content; heartbeat on all channels; all version triples',
               'thorough': 'body lengths 1..48 plus the same sample lengths'},
    'outside': 'body lengths between the listed ones up to 131072 (content never influences control '
               'flow: the path count is 1 per length)',
    'cuts': [],
}

BODY_RT = '''
def body(ch, content):
    c = hx.buf(hx.blist(content, %(n)d))
    cb = _body.ContentBody(c)
    if len(cb) != %(n)d:
        return False
    data = hx.fix(frame.marshal(cb, ch))
    if not ref.equal(data, ref.body_frame(ch, c)):
        return False
    k, chan, f = frame.unmarshal(data)
    t, pc, sz = frame.frame_parts(data)
    return (k == len(data) and k == %(n)d + 8 and chan == ch and type(f) is _body.ContentBody
            and f.value == c and len(f) == %(n)d and t == 3 and pc == ch and sz + 8 == len(data))
'''

BODY_BIG = '''
def body(ch, a, b, z):
    c = hx.buf([a, b] + [0x41] * (%(n)d - 3) + [z])
    cb = _body.ContentBody(c)
    data = hx.fix(frame.marshal(cb, ch))
    k, chan, f = frame.unmarshal(data)
    return (len(cb) == %(n)d and k == %(n)d + 8 and chan == ch and type(f) is _body.ContentBody
            and len(f.value) == %(n)d and f.value[0] == a and f.value[1] == b and f.value[%(n)d - 1] == z
            and data[3] * 16777216 + data[4] * 65536 + data[5] * 256 + data[6] == %(n)d
            and data[%(n)d + 7] == 0xCE)
'''

HEARTBEAT = '''
def body(ch):
    out = frame.marshal(heartbeat.Heartbeat(), ch)
    if not ref.equal(out, ref.heartbeat_frame()) or len(out) != 8:
        return False
    if heartbeat.Heartbeat().marshal() != bytes([8, 0, 0, 0, 0, 0, 0, 0xCE]):
        return False
    wire = hx.buf([8, ch // 256, ch % 256, 0, 0, 0, 0, 0xCE])
    k, chan, f = frame.unmarshal(wire)
    return k == 8 and chan == ch and type(f) is heartbeat.Heartbeat
'''

PROTO = '''
def body(a, b, c, ch):
    ph = header.ProtocolHeader(a, b, c)
    out = hx.fix(frame.marshal(ph, ch))
    if not ref.equal(out, ref.protocol_header(a, b, c)) or len(out) != 8:
        return False
    k, chan, f = frame.unmarshal(out)
    return (k == 8 and type(f) is header.ProtocolHeader and f.major_version == a
            and f.minor_version == b and f.revision == c and chan == 0)
'''


def partitions(tier, seed):
    # the thorough bounds of this property exhaust in about a minute: the quick tier uses them too
    tier = 'thorough'
    parts = []
    top = 32 if tier == 'quick' else 48
    for n in range(1, top + 1):
        parts.append(Part(
            name='body_len%d' % n, params=[('ch', 'int'), ('content', 'bytes')],
            pre=['0 <= ch <= 65535', 'len(content) == %d' % n],
            body=BODY_RT % {'n': n}, prelude=common.PRELUDE, timeout=90, family='body_rt',
            bound='all contents of length %d, all channels' % n,
            rep={'ch': 65535, 'content': {'__bytes__': (b'\xceAMQP\x01\x00\x01' * 8)[:n].hex()}}))
    # sample lengths up to the maximum frame size: concrete content (first byte 0xCE, last byte 'A'),
    # symbolic channel; the harness avoids per-byte Python work so that 131072-byte bodies stay cheap
    parts.append(Part(
        name='body_large', params=[('ch', 'int')], pre=['0 <= ch <= 65535'],
        body='def body(ch):\n'
             '    ok = True\n'
             '    for n in (255, 256, 4096, 65535, 65536, 131064, 131065, 131071, 131072):\n'
             '        content = b"\\xce" + bytes(n - 2) + b"A"\n'
             '        cb = _body.ContentBody(content)\n'
             '        data = frame.marshal(cb, ch)\n'
             '        t, pc, sz = frame.frame_parts(data)\n'
             '        k, chan, f = frame.unmarshal(data)\n'
             '        ok = ok and len(cb) == n and k == n + 8 and len(data) == n + 8 and chan == ch and pc == ch\n'
             '        ok = ok and t == 3 and sz == n and type(f) is _body.ContentBody and len(f) == n\n'
             '        ok = ok and f.value == content and data[n + 7] == 0xCE\n'
             '    return ok\n',
        prelude=common.PRELUDE, timeout=200, family='body_rt',
        bound='body lengths 255, 256, 4096, 65535, 65536, 131064, 131065, 131071, 131072 with concrete '
              'content, every channel', rep={'ch': 65535}))
    parts.append(Part(name='heartbeat', params=[('ch', 'int')], pre=['0 <= ch <= 65535'],
                      body=HEARTBEAT, prelude=common.PRELUDE, timeout=60, family='heartbeat',
                      bound='all channels', rep={'ch': 513}))
    parts.append(Part(name='protocol_header',
                      params=[('a', 'int'), ('b', 'int'), ('c', 'int'), ('ch', 'int')],
                      pre=['0 <= a <= 255', '0 <= b <= 255', '0 <= c <= 255', '0 <= ch <= 65535'],
                      body=PROTO, prelude=common.PRELUDE, timeout=60, family='protocol_header',
                      bound='all 256^3 version triples', rep={'a': 1, 'b': 0, 'c': 255, 'ch': 9}))
    parts.append(Part(name='twin_body_len4', params=[('ch', 'int'), ('content', 'bytes')],
                      pre=['0 <= ch <= 65535', 'len(content) == 4'],
                      body=(BODY_RT % {'n': 4}).replace('    return (k == len(data)', '    return not (k == len(data)'),
                      prelude=common.PRELUDE, timeout=60, expect='refuted', family='body_rt',
                      bound='vacuity twin'))
    return parts
