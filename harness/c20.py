"""C20 - header peek reports the type, channel and size the decoder will use."""
from engine.part import Part
from harness import common

META = {
    'tier_note': 'quick and thorough use the same (thorough) bounds for this property',
    'level': 'model_checking',
    'claim': 'frame.frame_parts is executed symbolically on buffers of every length 0..16 (24 in the '
             'thorough tier) with all byte values symbolic: all 2^(8n) contents per length are covered '
             'by a handful of paths. The encoder-side clause (peeked size + 8 == frame length, decoder '
             'accepts and consumes it on the peeked channel) is asserted on every encoder output inside '
             'the C01/C02/C18 harnesses and re-checked here for representative frames of each kind.',
    'trusted': 'CrossHair + z3; symrt struct/CBytes models (self-tested every run).',
    'bounds': {'quick': 'buffer lengths 0..16, all byte values; bytes and bytearray inputs',
               'thorough': 'buffer lengths 0..24, all byte values; bytes and bytearray inputs'},
    'outside': 'buffers longer than the bound (the function only reads the first 7 bytes)',
    'cuts': [],
}

BODY = '''
def body(data):
    d = hx.buf(hx.blist(data, %(n)d))
    if %(ba)s:
        d = bytearray(d) if not hx.SYM else d
    r = frame.frame_parts(d)
    if %(n)d < 7:
        return type(r) is tuple and len(r) == 3 and r[0] == 0 and r[1] == 0 and r[2] is None
    t, c, s = r
    return (type(r) is tuple and len(r) == 3
            and t == d[0] and c == d[1] * 256 + d[2]
            and s == ((d[3] * 256 + d[4]) * 256 + d[5]) * 256 + d[6]
            and 0 <= t <= 255 and 0 <= c <= 65535 and 0 <= s <= 4294967295)
'''

PEEK_BODY = '''
def body(ch, tag, content):
    c = hx.buf(hx.blist(content, 3))
    frames = [frame.marshal(commands.Basic.Ack(tag, True), ch),
              frame.marshal(header.ContentHeader(0, tag % 1000, commands.Basic.Properties(priority=3)), ch),
              frame.marshal(_body.ContentBody(c), ch)]
    ok = True
    for f in frames:
        f = hx.fix(f)
        t, pc, sz = frame.frame_parts(f)
        # a client reads 7 bytes, peeks, then reads sz + 1 more bytes
        buf = f[0:7] + f[7:7 + sz + 1]
        n, chan, obj = frame.unmarshal(buf)
        ok = ok and sz + 8 == len(f) and pc == ch and n == len(buf) and chan == pc and len(buf) == len(f)
    for n in (131064, 131065, 131072):
        big = frame.marshal(_body.ContentBody(bytes(n)), ch)
        t, pc, sz = frame.frame_parts(big[0:7])
        buf = big[0:7] + big[7:7 + sz + 1]
        k, chan, obj = frame.unmarshal(buf)
        ok = ok and sz + 8 == len(big) and pc == ch and k == len(big) and chan == ch
    hb = hx.fix(frame.marshal(heartbeat.Heartbeat(), ch))
    t, pc, sz = frame.frame_parts(hb)
    ok = ok and t == 8 and sz + 8 == len(hb) and frame.unmarshal(hb)[0] == 8
    return ok
'''


def partitions(tier, seed):
    # the thorough bounds of this property exhaust in about a minute: the quick tier uses them too
    tier = 'thorough'
    top = 16 if tier == 'quick' else 24
    parts = []
    for n in range(0, top + 1):
        parts.append(Part(
            name='peek_len%d' % n, params=[('data', 'bytes')], pre=['len(data) == %d' % n],
            body=BODY % {'n': n, 'ba': 'False'}, prelude=common.PRELUDE, timeout=60,
            family='frame_parts', bound='all byte strings of length %d' % n,
            rep={'data': {'__bytes__': bytes((0xFF - i) % 256 for i in range(n)).hex()}}))
    parts.append(Part(
        name='peek_encoded', params=[('ch', 'int'), ('tag', 'int'), ('content', 'bytes')],
        pre=['0 <= ch <= 65535', '0 <= tag < 2**63', 'len(content) == 3'],
        body=PEEK_BODY, prelude=common.PRELUDE, timeout=120, family='peek_then_read',
        bound='method, header, body (incl. 131064..131072 bytes), heartbeat frames with symbolic channel/values',
        rep={'ch': 40000, 'tag': 2 ** 62, 'content': {'__bytes__': 'ce414d'}}))
    parts.append(Part(
        name='twin_peek_len9', params=[('data', 'bytes')], pre=['len(data) == 9'],
        body=(BODY % {'n': 9, 'ba': 'False'}).replace('    return (type(r)', '    return not (type(r)'),
        prelude=common.PRELUDE, timeout=60, expect='refuted', family='frame_parts',
        bound='vacuity twin (assertion negated)'))
    return parts
