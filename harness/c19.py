"""C19 - frames expose their arguments consistently as a mapping."""
from engine.part import Part
from harness import common
from harness.common import spec

META = {
    'tier_note': 'quick and thorough use the same (thorough) bounds for this property',
    'level': 'model_checking',
    'claim': 'For each of the 64 method classes and Basic.Properties, instances with symbolic attribute '
             'values are inspected through every mapping entry point (iteration, dict(), len, item access, '
             'membership, attributes(), amqp_type()); all must agree with the ordered argument list of the '
             'independent spec table, before and after an encode/decode round trip and after setting '
             'attributes to None. Membership is decided for a SYMBOLIC string (any text up to the bound) '
             'plus every attribute name the object actually has as a concrete non-member candidate.',
    'trusted': 'CrossHair + z3; symrt models; spec/amqp091.py argument lists.',
    'bounds': {'quick': 'all 65 classes; integer/bit arguments symbolic over their full ranges, a single string '
                        'argument <= 1 code point (fixed when a class has several), table fixed; membership: any string <= 3 code points + all names in '
                        'dir(instance)',
               'thorough': 'strings <= 2 code points; membership strings <= 5 code points'},
    'outside': 'attribute values of types other than the argument\'s own type and None',
    'cuts': [],
}

PRE = common.PRELUDE + common.TABLE_HELPER + '''
ALL_ARG_NAMES = sorted(set(a for m in spec.METHODS for a, _, _ in m['args']) | set(n for n, _ in spec.PROPERTIES))

def mapping_ok(f, cls, names, types, values):
    """every mapping entry point agrees with the ordered list `names` and the live values"""
    pairs = list(iter(f))
    if len(pairs) != len(names) or len(f) != len(names):
        return False
    d = dict(f)
    if len(d) != len(names):
        return False
    if list(cls.attributes()) != names or list(f.attributes()) != names:
        return False
    for i, n in enumerate(names):
        k, v = pairs[i]
        live = getattr(f, n)
        if k != n or not same(v, live) or not same(f[n], live) or not same(d[n], live):
            return False
        if values is not None and not same(live, values[i]):
            return False
        if n not in f:
            return False
        if cls.amqp_type(n) != types[i] or f.amqp_type(n) != types[i]:
            return False
    return True


def same(a, b):
    if a is None or b is None:
        return a is b
    if isinstance(b, dict) or isinstance(a, dict):
        return isinstance(a, dict) and isinstance(b, dict) and len(a) == len(b) and all(k in a and a[k] == b[k] for k in b)
    return a == b and type(a) is type(b)


def membership_ok(f, names, probe):
    want = False
    for n in names:
        if probe == n:
            want = True
    if (probe in f) != want:
        return False
    # every other attribute name the object really has is NOT an argument
    for cand in dir(f):
        is_arg = False
        for n in names:
            if cand == n:
                is_arg = True
        if (cand in f) != is_arg:
            return False
    for cand in ALL_ARG_NAMES:
        is_arg = False
        for n in names:
            if cand == n:
                is_arg = True
        if (cand in f) != is_arg:
            return False
        if not is_arg:
            try:
                t = type(f).amqp_type(cand)
            except Exception:
                t = None
            for w in spec.WIRE_TYPES:
                if t == w:
                    return False      # a wire type for something that is not an argument of this class
    for cand in ("", "name", "index", "frame_id", "synchronous", "valid_responses", "marshal", "flags"):
        is_arg = False
        for n in names:
            if cand == n:
                is_arg = True
        if (cand in f) != is_arg:
            return False
    return True
'''


def _method_part(m, strlen, plen, timeout):
    from harness.c01 import _fixed_strings
    nstr = sum(1 for _, t, _ in m['args'] if t in ('shortstr', 'longstr'))
    # the mapping protocol does not depend on string/table contents: with several strings they are
    # fixed, one string stays symbolic; tables are a fixed one-entry dict
    fixed = _fixed_strings(m) if (nstr >= 2 or strlen == 0) else {}
    for a, t, _ in m['args']:
        if t == 'table':
            fixed[a] = {'k': 1}
    params, pre, ctor, checks, rep = common.method_params(m, max(strlen, 1), fixed=fixed)
    names = [a for a, _, _ in m['args']]
    types = [t for _, t, _ in m['args']]
    argn = ['ch'] + [p for p, _ in params] + ['probe']
    cls = common.cls_expr(m['name'])
    lines = ['def body(%s):' % ', '.join(argn),
             '    names, types = %r, %r' % (names, types),
             '    vals = [%s]' % ', '.join(ctor),
             '    try:',
             '        f = %s(*vals)' % cls,
             '        data = frame.marshal(f, ch)',
             '    except ValueError:',
             '        return hx.rejected()',
             '    for i, t in enumerate(types):',
             '        if t == "table" and vals[i] is None:',
             '            vals[i] = {}',
             '    ok = mapping_ok(f, %s, names, types, vals) and membership_ok(f, names, probe)' % cls,
             '    n, c, g = frame.unmarshal(hx.fix(data))',
             '    ok = ok and type(g) is %s and mapping_ok(g, %s, names, types, vals) and membership_ok(g, names, probe)' % (cls, cls),
             '    for n_ in names:',
             '        setattr(g, n_, None)',
             '    ok = ok and mapping_ok(g, %s, names, types, [None] * len(names))' % cls,
             '    return ok']
    return Part(name='map_' + common.safe(m['name']), params=[('ch', 'int')] + params + [('probe', 'str')],
                pre=['0 <= ch <= 65535'] + pre + ['len(probe) <= %d' % plen], body='\n'.join(lines),
                prelude=PRE, timeout=timeout, family='mapping_method',
                bound='%s: symbolic attribute values, symbolic membership probe <= %d code points' % (m['name'], plen),
                rep=dict(rep, ch=1, probe=names[0] if names else 'name'))


PROPS = '''
def body(prio, dm, ct, ts, probe, present):
    names = [n for n, _ in spec.PROPERTIES]
    types = [t for _, t in spec.PROPERTIES]
    kw = dict(priority=prio, delivery_mode=dm, content_type=ct, timestamp=hx.dt(ts, 0, 0),
              headers=hx.table([("k", 1)]) if present else None)
    p = commands.Basic.Properties(**kw)
    vals = [kw.get(n) if n != "cluster_id" else "" for n in names]
    P = commands.Basic.Properties
    ok = mapping_ok_props(p, P, names, types, vals) and membership_ok(p, names, probe)
    data = hx.fix(frame.marshal(header.ContentHeader(0, 1, p), 0))
    g = frame.unmarshal(data)[2].properties
    vals2 = list(vals)
    vals2[names.index("content_type")] = ct if len(ct) > 0 else None
    ok = ok and mapping_ok_props(g, P, names, types, vals2, ts_index=names.index("timestamp"))
    ok = ok and membership_ok(g, names, probe)
    return ok


def mapping_ok_props(f, cls, names, types, values, ts_index=None):
    pairs = list(iter(f))
    d = dict(f)
    if len(pairs) != len(names) or len(f) != len(names) or len(d) != len(names):
        return False
    if list(cls.attributes()) != names:
        return False
    for i, n in enumerate(names):
        k, v = pairs[i]
        live = getattr(f, n)
        if k != n or v is not live or f[n] is not live or d[n] is not live or n not in f:
            return False
        if cls.amqp_type(n) != types[i]:
            return False
        if i == ts_index:
            a, b = hx.dt_parts(live), hx.dt_parts(values[i])
            if a is None or a[1] != b[1]:
                return False
        elif not same(live, values[i]):
            return False
    return True
'''


def partitions(tier, seed):
    # the thorough bounds of this property exhaust in about a minute: the quick tier uses them too
    tier = 'thorough'
    q = tier == 'quick'
    parts = []
    for m in spec.METHODS:
        parts.append(_method_part(m, 1 if q else 2, 3 if q else 5, 200 if q else 480))
    parts.append(Part('map_basic_properties',
                      [('prio', 'int'), ('dm', 'int'), ('ct', 'str'), ('ts', 'int'), ('probe', 'str'), ('present', 'bool')],
                      ['0 <= prio <= 255', '1 <= dm <= 2', 'len(ct) <= 1', 'ct <= "\\x7f"', '0 <= ts < 2**32', 'len(probe) <= 3'],
                      PROPS, PRE, 250, family='mapping_properties',
                      bound='Basic.Properties with 5 symbolic properties, before and after a round trip',
                      rep={'prio': 0, 'dm': 2, 'ct': 'a', 'ts': 5, 'probe': 'headers', 'present': True}))
    m = spec.BY_NAME['Basic.Nack']
    tw = _method_part(m, 1, 3, 60)
    tw.name = 'twin_map_basic_nack'
    tw.body = tw.body.replace('    return ok', '    return not ok')
    tw.expect = 'refuted'
    tw.rep = None
    parts.append(tw)
    return parts
