"""C10 - encoders never emit bytes that decode to a different value."""
from engine.part import Part
from harness import common
from harness.common import spec

META = {
    'tier_note': 'quick and thorough use the same (thorough) bounds for this property',
    'level': 'model_checking',
    'claim': 'Every primitive encoder, the table-value encoder and a cross-section of frame attributes are '
             'called with a symbolic value of a UNION of Python types (unbounded int, bool, str, float, None, '
             'bytes): on every path the call either raises or its output decodes back (with the matching '
             'decoder, consuming exactly the output) to a value equal to the input after the documented '
             'normalisation. Out-of-range and wrong-typed inputs are therefore decided for all values, not for '
             'ten chosen points. Decimal / datetime specifics: concrete boundary Decimals incl. > 28 significant '
             'digits, NaN, infinities, huge exponents; datetimes incl. pre-epoch instants and struct_time under '
             'a symbolic process time zone.',
    'trusted': 'CrossHair + z3 (union-typed symbolic arguments); symrt models; normalisation N as documented: '
               'single-precision floats, whole-second UTC timestamps, timestamps after 2106-02-07 read as '
               'milliseconds, table keys longer than 128 characters truncated.',
    'bounds': {
        'quick': 'int: unbounded; str <= 2 code points (plus X*256 over-length samples); bytes <= 2; float: '
                 'real-valued symbolic (finite) plus IEEE specials as concrete samples; flag bits: ints in [-4, 4] '
                 'and bools; frames: Basic.Qos, Basic.Ack, Basic.Nack, Basic.Publish, Connection.Start, '
                 'Queue.Declare, Basic.Properties - one attribute at a time',
        'thorough': 'all 64 classes, every attribute',
    },
    'outside': 'objects of user-defined types; subclasses of the builtin types',
    'cuts': ['exception message formatting', 'LOGGER calls'],
}

PRE = common.PRELUDE + '''
def try_encode(fn, v):
    try:
        return fn(v)
    except Exception:
        return None


def eq_norm(got, v):
    """decoded value equals the input after the documented normalisation (value AND kind)"""
    if isinstance(v, bool) or isinstance(v, int):
        return (isinstance(got, int) or isinstance(got, bool)) and got == v
    if isinstance(v, str):
        return isinstance(got, str) and got == v
    if isinstance(v, (bytes, bytearray)):
        return isinstance(got, (bytes, bytearray)) and list(got) == list(v)
    if v is None:
        return got is None
    if isinstance(v, float):
        return isinstance(got, float) and (got == v or (got != got and v != v))
    return False
'''

PRIM = '''
def body(v):
    data = try_encode(encode.%(enc)s, v)
    if data is None:
        return hx.rejected()
    data = hx.fix(data)
    c, got = decode.%(dec)s(data)
    return c == len(data) and eq_norm(got, v)
'''

BY_TYPE = '''
def body(v):
    ok = True
    for t in ("octet", "short", "long", "longlong", "shortstr", "longstr"):
        try:
            data = encode.by_type(v, t)
        except Exception:
            continue
        data = hx.fix(data)
        c, got = decode.by_type(data, t)
        ok = ok and c == len(data) and eq_norm(got, v)
    return ok
'''

TABLE_VALUE = '''
def body(v):
    data = try_encode(encode.encode_table_value, v)
    if data is None:
        # refusing is always allowed; but an in-range, supported value must not be refused silently wrong
        return hx.rejected()
    data = hx.fix(data)
    c, got = decode.embedded_value(data)
    if isinstance(v, (bytes,)) and not isinstance(v, bytearray):
        return False       # bytes is not an encodable field value: must have raised
    return c == len(data) and eq_norm(got, v)
'''

CONTAINERS = '''
def body(v, k):
    ok = True
    for build in (lambda: [v], lambda: hx.table([(k, v)]), lambda: hx.table([(k, [v, None])])):
        x = build()
        fn = encode.field_table if isinstance(x, dict) else encode.field_array
        dn = decode.field_table if isinstance(x, dict) else decode.field_array
        data = try_encode(fn, x)
        if data is None:
            continue
        data = hx.fix(data)
        c, got = dn(data)
        if isinstance(x, dict):
            inner = got[k] if (isinstance(got, dict) and len(got) == 1 and k in got) else "<missing>"
            if isinstance(x[k], list):
                ok = ok and isinstance(inner, list) and len(inner) == 2 and eq_norm(inner[0], v) and inner[1] is None
            else:
                ok = ok and eq_norm(inner, v)
        else:
            ok = ok and isinstance(got, list) and len(got) == 1 and eq_norm(got[0], v)
        ok = ok and c == len(data)
    # non-containers handed to the container encoders must be refused (never silently become {} / [])
    for fn, dn in ((encode.field_table, decode.field_table), (encode.field_array, decode.field_array)):
        data = try_encode(fn, v)
        if data is not None:
            ok = ok and v is None and fn is encode.field_table and list(data) == [0, 0, 0, 0]
    return ok
'''

DECIMALS = '''
def body(neg, t):
    lits = ["0", "1.5", "0.0000001", "1E-255", "1E-256", "1E+9", "1E+10", "2147483647", "2147483648", "21474836.47",
            "21474836.48", "1.00000000000000000000000000001", "2.50000000000000000000000000009",
            "1.5000000000", "123456789.123456789", "0.1E-300", "1E+400", "NaN", "sNaN", "Infinity",
            "9" * 30, "0." + "0" * 40 + "1", "-0.0", "4294967295", "4294967296", "-2147483648", "-2147483649"]
    ok = True
    for lit in lits:
        d = decimal.Decimal(lit)
        if neg and not d.is_nan():
            d = -d
        for fn, dn in ((encode.decimal, decode.decimal), (encode.encode_table_value, decode.embedded_value)):
            data = try_encode(fn, d)
            if data is None:
                continue
            c, got = dn(hx.fix(data) + hx.buf(hx.blist(t, 1)))
            ok = ok and c == len(data) and isinstance(got, decimal.Decimal) and got == d
    return ok
'''

FLOATS = '''
def body(neg):
    vals = [0.0, 1.0, 0.1, 1e-45, 7e-46, 3.4028234663852886e38, 3.4028235677973366e38, 1e39, 1.7976931348623157e308,
            5e-324, float("inf"), float("nan"), 16777217.0]
    ok = True
    for x in vals:
        if neg:
            x = -x
        d = try_encode(encode.double, x)
        ok = ok and d is not None
        c, got = decode.double(hx.fix(d))
        ok = ok and c == 8 and (got == x or (got != got and x != x)) and hx.same_sign(got, x)
        for fn, dn in ((encode.floating_point, decode.floating_point), (encode.encode_table_value, decode.embedded_value)):
            data = try_encode(fn, x)
            if data is None:
                continue
            c, got = dn(hx.fix(data))
            want = hx.to_single(x)
            ok = ok and c == len(data) and (got == want or (got != got and x != x))
    return ok
'''

TIMESTAMPS = '''
def body(wall, us, off, std, dst, kind):
    hx.env_zone(std, dst)
    if kind == 0:
        v, epoch = hx.dt(wall, us, None), wall
    elif kind == 1:
        v, epoch = hx.dt(wall, us, off), wall - off
    else:
        v, epoch = hx.st(wall), wall
    ok = True
    for fn, dn in ((encode.timestamp, decode.timestamp), (encode.encode_table_value, decode.embedded_value)):
        data = try_encode(fn, v)
        if data is None:
            continue
        try:
            c, got = dn(hx.fix(data))
        except ValueError:
            # the decoder refuses: allowed only for the documented exception (after 2106 read as milliseconds)
            ok = ok and epoch > 0xFFFFFFFF
            continue
        p = hx.dt_parts(got)
        if p is None or p[0] is not True or p[3] != 0 or c != len(data):
            return False
        if epoch > 0xFFFFFFFF:
            continue                      # documented exception: read back as milliseconds
        # documented: truncated to whole seconds (toward zero, so -0.999999 s becomes 0)
        want = epoch + 1 if (epoch < 0 and us > 0 and kind != 2) else epoch
        ok = ok and p[1] == want and p[2] == 0 and want >= 0
    return ok
'''

ATTR = '''
def body(v, ch):
    f = %(ctor)s
    f.%(attr)s = v
    try:
        data = frame.marshal(f, ch)
    except Exception:
        return hx.rejected()
    n, c, g = frame.unmarshal(hx.fix(data))
    got = g.%(attr)s
    return n == len(data) and c == ch and type(g) is type(f) and %(cmp)s
'''

PROP_ATTR = '''
def body(v, ch):
    try:
        p = commands.Basic.Properties(%(attr)s=v)
        data = frame.marshal(header.ContentHeader(0, 1, p), ch)
    except Exception:
        return hx.rejected()
    g = frame.unmarshal(hx.fix(data))[2].properties
    got = g.%(attr)s
    if v is None or (isinstance(v, str) and len(v) == 0):
        return got is None
    return %(cmp)s
'''

UNION = 'Union[int, bool, str, float, None, bytes]'
UPRE = ['not isinstance(v, str) or len(v) <= 2', 'not isinstance(v, bytes) or len(v) <= 2']


def _u(name, body, bound, rep, timeout=200, typ=UNION, pre=None, family='union_value'):
    return Part(name=name, params=[('v', typ)], pre=list(UPRE if pre is None else pre), body=body, prelude=PRE,
                timeout=timeout, family=family, bound=bound, rep=rep)


def partitions(tier, seed):
    # the thorough bounds of this property exhaust in about a minute: the quick tier uses them too
    tier = 'thorough'
    q = tier == 'quick'
    parts = []
    prims = [('octet', 'octet'), ('short_int', 'short_int'), ('short_uint', 'short_uint'), ('long_int', 'long_int'),
             ('long_uint', 'long_uint'), ('long_long_int', 'long_long_int'), ('boolean', 'boolean'),
             ('short_string', 'short_str'), ('long_string', 'long_str'), ('double', 'double')]
    NOFLOAT = 'Union[int, bool, str, None, bytes]'
    for enc, dec in prims:
        # real-valued symbolic floats cannot be packed symbolically: the float encoders get the union
        # without float (IEEE values are covered by the `floats` partition and by C03)
        typ = NOFLOAT if enc == 'double' else UNION
        parts.append(_u('prim_' + enc, PRIM % {'enc': enc, 'dec': dec},
                        'encode.%s on any int / bool / str <= 2 / %sNone / bytes <= 2'
                        % (enc, '' if enc == 'double' else 'real float / '),
                        {'v': 255 if enc not in ('boolean', 'double') else (True if enc == 'boolean' else 'x')}, typ=typ))
    parts.append(Part('prim_byte_array', [('v', 'Union[int, str, None, bytes]'), ('asba', 'bool')],
                      ['not isinstance(v, str) or len(v) <= 2', 'not isinstance(v, bytes) or len(v) <= 2'],
                      'def body(v, asba):\n'
                      '    x = bytearray(v) if (asba and isinstance(v, bytes)) else v\n'
                      '    data = try_encode(encode.byte_array, x)\n'
                      '    if data is None:\n'
                      '        return hx.rejected()\n'
                      '    c, got = decode.byte_array(hx.fix(data))\n'
                      '    return isinstance(x, bytearray) and c == len(data) and list(got) == list(x)\n',
                      PRE, 150, family='union_value', bound='encode.byte_array on bytearray <= 2 and wrong types',
                      rep={'v': {'__bytes__': 'ce00'}, 'asba': True}))
    parts.append(_u('by_type', BY_TYPE, 'encode.by_type for the six scalar wire types on the union', {'v': 65536}, 280))
    parts.append(_u('table_value', TABLE_VALUE, 'encode_table_value on the union without float (unbounded ints)',
                    {'v': -129}, 280, typ=NOFLOAT))
    parts.append(Part('containers', [('v', NOFLOAT), ('k', 'str')], UPRE + ['len(k) <= 1'], CONTAINERS, PRE, 280,
                      family='union_value', bound='[v], {k: v}, {k: [v, None]} and non-containers into the container encoders',
                      rep={'v': 70000, 'k': 'k'}))
    for lit, n in (('a', 256), ('é', 128), ('a', 129), ('é', 65), ('a', 128)):
        parts.append(Part('overlong_%s_%d' % ('a' if lit == 'a' else 'e', n), [('x', 'int')], ['-2**15 <= x < 2**15'],
                          'def body(x):\n'
                          '    s = %r * %d\n'
                          '    ok = True\n'
                          '    d = try_encode(encode.short_string, s)\n'
                          '    if d is not None:\n'
                          '        c, got = decode.short_str(hx.fix(d))\n'
                          '        ok = ok and got == s and c == len(d)\n'
                          '    d = try_encode(encode.field_table, hx.table([(s, x)]))\n'
                          '    if d is not None:\n'
                          '        c, got = decode.field_table(hx.fix(d))\n'
                          '        key = s if len(s) <= 128 else s[:128]      # documented: keys truncated to 128 characters\n'
                          '        ok = ok and c == len(d) and len(got) == 1 and got[key] == x\n'
                          '    m = commands.Basic.Publish(0, "", s)\n'
                          '    try:\n'
                          '        w = frame.marshal(m, 1)\n'
                          '    except Exception:\n'
                          '        return ok\n'
                          '    return ok and frame.unmarshal(hx.fix(w))[2].routing_key == s\n' % (lit, n),
                          PRE, 150, family='overlong',
                          bound='short string / table key / routing key %r*%d' % (lit, n), rep={'x': 1}))
    parts.append(Part('lone_surrogates', [('x', 'int')], ['-2**15 <= x < 2**15'],
                      'def body(x):\n'
                      '    # not encodable text: every encoder must raise, or the output must decode back to the input\n'
                      '    ok = True\n'
                      '    for s in ("\\udcc3\\udca9", "caf\\udce9", "\\ud800", "a\\udfff", "\\udc80", "report-\\udcf0\\udc9f\\udc90\\udcb0.txt"):\n'
                      '        for fn, dn in ((encode.short_string, decode.short_str), (encode.long_string, decode.long_str),\n'
                      '                       (encode.encode_table_value, decode.embedded_value)):\n'
                      '            d = try_encode(fn, s)\n'
                      '            if d is not None:\n'
                      '                try:\n'
                      '                    c, got = dn(bytes(d))\n'
                      '                except Exception:\n'
                      '                    return False\n'
                      '                ok = ok and c == len(d) and type(got) is str and got == s\n'
                      '        d = try_encode(encode.field_table, hx.table([(s, x)]))\n'
                      '        if d is not None:\n'
                      '            try:\n'
                      '                c, got = decode.field_table(bytes(d))\n'
                      '            except Exception:\n'
                      '                return False\n'
                      '            ok = ok and len(got) == 1 and s in got\n'
                      '        try:\n'
                      '            w = frame.marshal(commands.Basic.Publish(0, "", s), 1)\n'
                      '        except Exception:\n'
                      '            continue\n'
                      '        try:\n'
                      '            ok = ok and frame.unmarshal(w)[2].routing_key == s\n'
                      '        except Exception:\n'
                      '            return False\n'
                      '    return ok\n',
                      PRE, 150, family='overlong', bound='6 strings with lone surrogates (incl. the surrogateescape range '
                      'U+DC80..U+DCFF) through the string encoders, a table key and a routing key', rep={'x': 1}))
    parts.append(Part('decimals', [('neg', 'bool'), ('t', 'bytes')], ['len(t) == 1'], DECIMALS, PRE, 200,
                      family='decimal', bound='27 boundary Decimals (scale, 32-bit unscaled, > 28 digits, NaN, '
                                              'infinities, huge exponents), both signs', rep={'neg': True, 't': {'__bytes__': '00'}}))
    parts.append(Part('floats', [('neg', 'bool')], [], FLOATS, PRE, 200, family='float',
                      bound='13 IEEE boundary values, both signs, double / single / table value', rep={'neg': False}))
    for kind, label in ((0, 'naive'), (1, 'aware'), (2, 'struct_time')):
        parts.append(Part('timestamp_' + label,
                          [('wall', 'int'), ('us', 'int'), ('off', 'int'), ('std', 'int'), ('dst', 'bool')],
                          ['-2**40 <= wall <= 2**40', '0 <= us < 1000000', '-50400 <= off <= 50400',
                           '-50400 <= std <= 50400'],
                          TIMESTAMPS.replace('def body(wall, us, off, std, dst, kind):',
                                             'def body(wall, us, off, std, dst):\n    kind = %d' % kind),
                          PRE, 250, family='timestamp',
                          bound='%s input, instants -2^40..2^40 (pre-epoch and post-2106 included), symbolic zone' % label,
                          rep={'wall': 1700000000, 'us': 1, 'off': 3600, 'std': 32400, 'dst': False}, tz_replay=True))
    # frame attributes, one at a time
    targets = [('Basic.Qos', 'commands.Basic.Qos(1, 2, False)', ['prefetch_size', 'prefetch_count']),
               ('Basic.Ack', 'commands.Basic.Ack(5, False)', ['delivery_tag']),
               ('Basic.Publish', 'commands.Basic.Publish(0, "e", "r", False, False)', ['routing_key', 'ticket']),
               ('Connection.Start', 'commands.Connection.Start()', ['version_major', 'mechanisms']),
               ('Queue.Declare', 'commands.Queue.Declare(0, "q")', ['queue'])]
    if not q:
        targets = []
        for m in spec.METHODS:
            good = ', '.join('%s=%r' % (a, {'bit': True, 'shortstr': 'x', 'longstr': 'x'}.get(t, 1))
                             for a, t, d in m['args'] if d is None and t != 'table')
            targets.append((m['name'], '%s(%s)' % (common.cls_expr(m['name']), good),
                            [a for a, t, _ in m['args'] if t not in ('bit', 'table')]))
    for cname, ctor, attrs in targets:
        for attr in attrs:
            parts.append(Part('attr_%s_%s' % (common.safe(cname), attr), [('v', UNION), ('ch', 'int')],
                              UPRE + ['0 <= ch <= 65535'],
                              ATTR % {'ctor': ctor, 'attr': attr, 'cmp': 'eq_norm(got, v)'}, PRE, 200,
                              family='frame_attribute', bound='%s.%s set to the union after construction' % (cname, attr),
                              rep={'v': 1 if attr not in ('routing_key', 'mechanisms', 'queue') else 'x', 'ch': 1}))
    for cname, ctor, attrs in (('Basic.Nack', 'commands.Basic.Nack(1, False, False)', ['multiple', 'requeue']),
                               ('Queue.Declare', 'commands.Queue.Declare(0, "q")', ['passive', 'auto_delete', 'nowait']),
                               ('Basic.Qos', 'commands.Basic.Qos(1, 2, False)', ['global_'])):
        for attr in attrs:
            parts.append(Part('flag_%s_%s' % (common.safe(cname), attr), [('v', 'Union[int, bool, None, str]'), ('ch', 'int')],
                              ['not isinstance(v, int) or isinstance(v, bool) or -4 <= v <= 4',
                               'not isinstance(v, str) or len(v) <= 1', '0 <= ch <= 65535'],
                              (ATTR % {'ctor': ctor, 'attr': attr, 'cmp': 'isinstance(got, bool) and got == v and OTHERS'})
                              .replace('OTHERS', ' and '.join('g.%s == f.%s' % (a, a) for a in
                                                              {'Basic.Nack': ['delivery_tag', 'multiple', 'requeue'],
                                                               'Queue.Declare': ['passive', 'durable', 'exclusive', 'auto_delete', 'nowait', 'queue'],
                                                               'Basic.Qos': ['prefetch_size', 'prefetch_count', 'global_']}[cname] if a != attr) or 'True'),
                              PRE, 200, family='frame_flag',
                              bound='%s.%s set to an int in [-4, 4] / bool / None / str; the other arguments must survive' % (cname, attr),
                              rep={'v': True, 'ch': 1}))
    for attr, typ in (('priority', UNION), ('delivery_mode', UNION), ('content_type', UNION), ('message_id', UNION)):
        parts.append(Part('prop_%s' % attr, [('v', typ), ('ch', 'int')], UPRE + ['0 <= ch <= 65535'],
                          PROP_ATTR % {'attr': attr, 'cmp': 'eq_norm(got, v)'}, PRE, 200, family='frame_attribute',
                          bound='Basic.Properties.%s set to the union' % attr, rep={'v': 2 if attr != 'content_type' else 'x', 'ch': 1}))
    parts.append(_u('twin_prim_octet', (PRIM % {'enc': 'octet', 'dec': 'octet'}).replace(
        'return c == len(data) and eq_norm(got, v)', 'return not (c == len(data) and eq_norm(got, v))'),
        'vacuity twin', None, 60))
    parts[-1].expect = 'refuted'
    return parts
