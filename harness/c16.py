"""C16 - codec calls are independent of history and of concurrent callers."""
from engine.part import Part
from harness import common
from harness.common import spec

META = {
    'tier_note': 'quick and thorough use the same (thorough) bounds for this property',
    'level': 'model_checking',
    'claim': 'Inductive step lemma: from an arbitrary switch state, for every API operation in the bound '
             '(constructing each class with defaults, marshal, unmarshal of valid and of arbitrary bytes '
             'incl. failing decodes inside nested containers, encode.* / decode.* on symbolic values, the '
             'toggle) a structural snapshot of EVERY pamqp module global and class attribute (private names '
             'included) is unchanged afterwards - also when the call raised - and only the toggle changes the '
             'switch; repeating an operation after other operations gives an equal result that also equals '
             'the independent reference (i.e. what a fresh interpreter returns); mutable members of separate '
             'results, defaults and module state are never the same object. Sequential histories of any length '
             'follow by induction on this step.',
    'trusted': 'CrossHair + z3; symrt models; the snapshot walks vars() of all pamqp modules and classes, so '
               'state hidden elsewhere (closures, C-level caches such as functools.lru_cache) is only visible '
               'through the repeat-equals-reference clause.',
    'bounds': 'operations: see partitions; symbolic values as in C01/C09 quick bounds; 64 classes constructed '
              'with defaults',
    'outside': 'THREAD SCHEDULES ARE NOT EXPLORED: the concurrency clause is reduced to the premise "no path '
               'writes shared state and the only shared mutable read is the switch", which the step lemma '
               'establishes within the bounds; that this suffices under CPython\'s GIL, and that a toggle '
               'racing an in-flight encode is excluded, are stated assumptions',
    'cuts': ['exception message formatting'],
    'assumptions': ['non-interference premise implies schedule independence (not checked by the solver)'],
}

PRE = common.PRELUDE + '''
import sys
import types
from pamqp import body as body_mod, header as header_mod, heartbeat as hb_mod, exceptions as exc_mod


def _snapval(v, depth=0):
    if isinstance(v, (list, tuple)):
        return [type(v).__name__] + [_snapval(x, depth + 1) for x in v]
    if isinstance(v, dict):
        return ['dict'] + [(k if isinstance(k, (str, int, bytes)) else repr(k), _snapval(x, depth + 1))
                           for k, x in v.items()]
    if isinstance(v, (set, frozenset)):
        return ['set', len(v)]
    if isinstance(v, (bool, int, float, str, bytes, bytearray)) or v is None:
        return v
    return ('obj', type(v).__name__)


def snapshot():
    return hx.untraced(_snapshot)


def same_state(a, b):
    return hx.untraced(lambda: a == b)


def _snapshot():
    out = []
    mods = [m for n, m in sorted(sys.modules.items()) if n == 'pamqp' or n.startswith('pamqp.')]
    for m in mods:
        for k, v in sorted(vars(m).items()):
            if k.startswith('__') or isinstance(v, (types.ModuleType, types.FunctionType, types.BuiltinFunctionType)):
                continue
            if isinstance(v, type):
                if getattr(v, '__module__', '').startswith('pamqp'):
                    out.append((m.__name__, k, _class_snap(v)))
                continue
            out.append((m.__name__, k, _snapval(v)))
    return out


def _class_snap(c, depth=0):
    res = []
    for k, v in sorted(vars(c).items()):
        if k in ('__dict__', '__weakref__', '__doc__', '__module__', '__qualname__'):
            continue
        if isinstance(v, type) and depth < 2:
            res.append((k, _class_snap(v, depth + 1)))
        elif isinstance(v, (types.FunctionType, classmethod, staticmethod, property, types.MemberDescriptorType)):
            continue
        else:
            res.append((k, _snapval(v)))
    return res


def state_ok(s0, amplify):
    """module state unchanged; otherwise: symbolic run -> suspicion (counterexample is produced and the
    concrete replay decides); concrete run -> amplify the operation and check that behaviour still equals
    what a fresh interpreter gives (a cache that changes no result is not a violation)"""
    if same_state(snapshot(), s0):
        return True
    if hx.SYM:
        hx.suspicion()
        return False
    for _ in range(60):
        amplify()
    return battery()


def battery():
    """fixed calls whose results are compared with the independent reference (= fresh interpreter)"""
    ok = True
    try:
        legacy0 = encode.DEPRECATED_RABBITMQ_SUPPORT
        for legacy in (False, True, False):
            encode.support_deprecated_rabbitmq(legacy)
            for n in (0, -1, 127, 128, 40000, 65535, 65536, 3000000000, 2 ** 40, -2 ** 40):
                v = [n, {"k": n, "j": [n, "s", True, None]}]
                ok = ok and ref.equal(encode.encode_table_value(v), ref.field_value(v, legacy))
        encode.support_deprecated_rabbitmq(legacy0)
        nested = bytes([0, 0, 0, 22, 1, 97, 65, 0, 0, 0, 16, 70, 0, 0, 0, 11, 1, 98, 65, 0, 0, 0, 5, 70, 0, 0, 0, 0])
        c, got = decode.field_table(nested)
        ok = ok and c == 26 and got == {"a": [{"b": [{}]}]}
        for ch in (0, 7):
            m = commands.Queue.Declare(0, "q", False, True, False, False, False, {"x": [1, {"y": 2}]})
            d = frame.marshal(m, ch)
            n, c2, f = frame.unmarshal(d)
            ok = ok and n == len(d) and c2 == ch and f.arguments == {"x": [1, {"y": 2}]} and f.durable is True
            h = header.ContentHeader(0, 5, commands.Basic.Properties(priority=1, headers={"a": 1}))
            g = frame.unmarshal(frame.marshal(h, ch))[2]
            ok = ok and g.properties.priority == 1 and g.properties.headers == {"a": 1}
            g2 = frame.unmarshal(frame.marshal(header.ContentHeader(0, 5), ch))[2]
            ok = ok and g2.properties.priority is None and g2.properties.headers is None
        ok = ok and commands.Queue.Declare().arguments == {} and header.ContentHeader().properties.priority is None
        ok = ok and type(frame.unmarshal(bytes([8, 0, 0, 0, 0, 0, 0, 0xCE]))[2]) is heartbeat.Heartbeat
    except Exception:
        return False
    return ok


def set_mode(mode):
    if mode == 0:
        encode.support_deprecated_rabbitmq(False)
    elif mode == 1:
        encode.support_deprecated_rabbitmq(True)
    else:
        encode.support_deprecated_rabbitmq()
    return mode != 0


def attempt(fn, *a):
    try:
        return ('ok', fn(*a))
    except Exception as e:
        return ('exc', type(e).__name__)
'''

STEP_ENCODE = '''
def body(n, k, s, b):
    legacy = set_mode(%(mode)d)
    try:
        s0 = snapshot()
        v = [n, hx.table([(k, n), ("z", [s, b, None])])]
        r1 = attempt(encode.encode_table_value, v)
        ok = state_ok(s0, lambda: attempt(encode.encode_table_value, v))
        r2 = attempt(encode.field_table, hx.table([(k, v)]))
        ok = ok and state_ok(s0, lambda: attempt(encode.field_table, hx.table([(k, v)])))
        r3 = attempt(encode.encode_table_value, v)
        ok = ok and r1[0] == r3[0] and (r1[0] != 'ok' or list(r1[1]) == list(r3[1]))
        if r1[0] == 'ok':
            ok = ok and ref.equal(hx.fix(r1[1]), ref.field_value(v, legacy))
        ok = ok and encode.DEPRECATED_RABBITMQ_SUPPORT is legacy
        return ok
    finally:
        encode.support_deprecated_rabbitmq(False)
'''

STEP_LONGKEY = '''
def body(n, k):
    # names around the 128-character truncation threshold: the same table encoded again and again
    legacy = set_mode(%(mode)d)
    try:
        s0 = snapshot()
        key = "A" * 127 + k
        t = hx.table([(key, n)])
        r1 = attempt(encode.field_table, t)
        ok = state_ok(s0, lambda: attempt(encode.field_table, t))
        r2 = attempt(encode.field_table, hx.table([(key, n)]))
        r3 = attempt(encode.field_table, t)
        ok = ok and r1[0] == 'ok' and r2[0] == 'ok' and r3[0] == 'ok'
        ok = ok and list(r1[1]) == list(r2[1]) and list(r1[1]) == list(r3[1])
        ok = ok and ref.equal(hx.fix(r1[1]), ref.table(hx.table([(key[:128], n)]), legacy))
        m1 = attempt(lambda: frame.marshal(commands.Queue.Declare(arguments=hx.table([(key, n)])), 1))
        m2 = attempt(lambda: frame.marshal(commands.Queue.Declare(arguments=hx.table([(key, n)])), 1))
        ok = ok and m1[0] == 'ok' and m2[0] == 'ok' and list(m1[1]) == list(m2[1])
        return ok and state_ok(s0, lambda: attempt(encode.field_table, t))
    finally:
        encode.support_deprecated_rabbitmq(False)
'''

STEP_DECODE = '''
def body(data):
    s0 = snapshot()
    d = hx.buf(hx.blist(data, %(n)d))
    r1 = attempt(frame.unmarshal, d)
    ok = state_ok(s0, lambda: attempt(frame.unmarshal, d))
    r4 = attempt(frame.unmarshal, d)
    ok = ok and r1[0] == r4[0] and (r1[0] != 'ok' or (r1[1][0] == r4[1][0] and r1[1][1] == r4[1][1]
                                                       and type(r1[1][2]) is type(r4[1][2])))
    return ok and state_ok(s0, lambda: attempt(frame.unmarshal, d))
'''

STEP_NESTED = '''
def body(tag, v0, v1):
    # a (possibly failing) decode inside nested containers: table > array > table > value with tag `tag`
    s0 = snapshot()
    inner = [1, ord('k'), tag, v0, v1, 0, 0]
    arr = [ord('F'), 0, 0, 0, len(inner)] + inner
    tbl = [1, ord('a'), ord('A'), 0, 0, 0, len(arr)] + arr
    nested = hx.buf([0, 0, 0, len(tbl)] + tbl)
    good = hx.buf([0, 0, 0, 11, 1, 97, 65, 0, 0, 0, 5, 70, 0, 0, 0, 0])      # {a: [{}]}
    g0 = attempt(decode.field_table, good)
    ok = g0[0] == 'ok'
    for _ in range(2):
        r2 = attempt(decode.field_table, nested)
    ok = ok and state_ok(s0, lambda: attempt(decode.field_table, nested))
    g1 = attempt(decode.field_table, good)
    ok = ok and g1[0] == 'ok' and g1[1][0] == g0[1][0] and len(g1[1][1]) == 1
    wire = hx.buf([1, 0, 1, 0, 0, 0, 4 + 7 + len(nested)] + [0, 50, 0, 20] + [0, 0, 0, 0, 0, 0, 0][:0]
                  + [0, 0, 0, 0, 0] + list(nested) + [0xCE])
    r3 = attempt(frame.unmarshal, wire)
    ok = ok and state_ok(s0, lambda: attempt(frame.unmarshal, wire))
    return ok
'''

STEP_FRAMES = '''
def body(ch, tag, flag):
    s0 = snapshot()
    ok = True
    for cls in CLASSES:
        a, b = attempt(cls), attempt(cls)
        if a[0] != 'ok':
            ok = ok and b[0] == a[0]
            continue
        f, g = a[1], b[1]
        for name in f.attributes():
            x, y = getattr(f, name), getattr(g, name)
            if isinstance(x, (dict, list, bytearray)):
                ok = ok and x is not y                  # fresh default containers
                if isinstance(x, dict):
                    x["poison"] = 1                     # changing one object ...
                    ok = ok and "poison" not in y       # ... does not change another
                    h = cls()
                    ok = ok and "poison" not in getattr(h, name)   # ... nor a later default
        r = attempt(frame.marshal, g, ch)
        if r[0] == 'ok':
            d = hx.fix(r[1])
            u1, u2 = frame.unmarshal(d), frame.unmarshal(d)
            ok = ok and u1[2] is not u2[2]
            for name in u1[2].attributes():
                x, y = getattr(u1[2], name), getattr(u2[2], name)
                if isinstance(x, (dict, list, bytearray)):
                    ok = ok and x is not y
    ok = ok and state_ok(s0, lambda: None)
    # content headers: default properties are per object, decoded properties are per frame
    h1, h2 = header.ContentHeader(), header.ContentHeader()
    ok = ok and h1.properties is not h2.properties
    p = commands.Basic.Properties(priority=tag %% 256, headers=hx.table([("k", flag)]))
    d1 = hx.fix(frame.marshal(header.ContentHeader(0, tag, p), ch))
    d2 = hx.fix(frame.marshal(header.ContentHeader(0, tag), ch))
    a = frame.unmarshal(d1)[2]
    b = frame.unmarshal(d2)[2]
    c = frame.unmarshal(d1)[2]
    ok = ok and a.properties is not b.properties and a.properties is not c.properties
    ok = ok and b.properties.priority is None and b.properties.headers is None
    ok = ok and a.properties.headers is not c.properties.headers
    a.properties.headers["poison"] = 1
    ok = ok and "poison" not in c.properties.headers and frame.unmarshal(d1)[2].properties.headers == {"k": flag}
    ok = ok and header.ContentHeader().properties.priority is None
    # nested containers of separate decodes are never the same object, and changing one in place does not
    # change what a later decode of the same bytes returns
    nested = hx.table([("x", [1, hx.table([("y", tag)])]), ("b", bytearray([1, 2])), ("t", hx.table([("z", [flag])]))])
    w1 = hx.fix(frame.marshal(commands.Queue.Declare(0, "q", False, flag, False, False, False, nested), ch))
    w2 = hx.fix(frame.marshal(header.ContentHeader(0, 1, commands.Basic.Properties(headers=nested)), ch))
    for w, get in ((w1, lambda f: f.arguments), (w2, lambda f: f.properties.headers)):
        t1, t2 = get(frame.unmarshal(w)[2]), get(frame.unmarshal(w)[2])
        ok = ok and t1 is not t2 and t1["x"] is not t2["x"] and t1["x"][1] is not t2["x"][1]
        ok = ok and t1["b"] is not t2["b"] and t1["t"] is not t2["t"] and t1["t"]["z"] is not t2["t"]["z"]
        t1["x"].append("poison")
        t1["x"][1]["y"] = "poison"
        t1["b"].append(9)
        t1["t"]["z"][0] = "poison"
        t3 = get(frame.unmarshal(w)[2])
        ok = ok and len(t3["x"]) == 2 and t3["x"][1]["y"] == tag and len(t3["b"]) == 2 and t3["t"]["z"][0] == flag
    ok = ok and state_ok(s0, lambda: None)
    return ok
'''

THREADS = '''
def body(n):
    import threading, queue

    class Worker:
        def __init__(self):
            self.q, self.r = queue.Queue(), queue.Queue()
            self.t = threading.Thread(target=self.loop, daemon=True)
            self.t.start()

        def loop(self):
            while True:
                fn = self.q.get()
                if fn is None:
                    return
                try:
                    self.r.put(('ok', fn()))
                except Exception as e:
                    self.r.put(('exc', type(e).__name__))

        def call(self, fn):
            self.q.put(fn)
            return self.r.get(timeout=20)

    def enc_ok(legacy):
        def f():
            v = hx.table([("k", n), ("j", [n, 3000000000])])
            return ref.equal(encode.field_table(v), ref.table(v, legacy))
        return f

    a, b = Worker(), Worker()
    ok = True
    try:
        encode.support_deprecated_rabbitmq(False)
        steps = [(a, True), (b, False), (a, None), (b, True), (None, False), (a, None), (b, None), (None, True),
                 (b, False), (a, None)]
        state = False
        for who, toggle in steps:
            if toggle is not None:
                fn = (lambda t=toggle: encode.support_deprecated_rabbitmq(t))
                if who is None:
                    fn()
                else:
                    ok = ok and who.call(fn)[0] == 'ok'
                state = toggle
            for w in (a, b):
                ok = ok and w.call(enc_ok(state)) == ('ok', True)
            ok = ok and enc_ok(state)() and encode.DEPRECATED_RABBITMQ_SUPPORT is state
        return ok
    finally:
        encode.support_deprecated_rabbitmq(False)
        a.q.put(None)
        b.q.put(None)
'''

HISTORY = '''
def body(n, k):
    """same operation before / after toggles and failing calls equals the fresh-interpreter result"""
    try:
        ok = True
        for seq in ((0, 1, 0), (1, 0, 1), (2, 0, 2), (0, 2, 1, 0)):
            for mode in seq:
                legacy = set_mode(mode)
                r = attempt(encode.field_table, hx.table([(k, [n])]))
                want = ref.table(hx.table([(k, [n])]), legacy)
                ok = ok and r[0] == 'ok' and ref.equal(hx.fix(r[1]), want)
                attempt(decode.field_table, hx.buf([0, 0, 0, 9, 1, 65, 65, 0, 0, 0, 1, 90]))   # failing decode
                m = commands.Queue.Declare(arguments=hx.table([(k, n)]))
                d = hx.fix(frame.marshal(m, 1))
                ok = ok and ref.equal(d, ref.method_frame(1, spec.BY_NAME["Queue.Declare"],
                                                          [0, "", False, False, False, False, False, hx.table([(k, n)])], legacy=legacy))
        return ok
    finally:
        encode.support_deprecated_rabbitmq(False)
'''


def partitions(tier, seed):
    # the thorough bounds of this property exhaust in about a minute: the quick tier uses them too
    tier = 'thorough'
    q = tier == 'quick'
    parts = []
    for mode in (0, 1):
        parts.append(Part('step_encode_mode%d' % mode, [('n', 'int'), ('k', 'str'), ('s', 'str'), ('b', 'bool')],
                          ['-2**70 <= n <= 2**70', 'len(k) == 1', 'k <= "\\x7f"', 's == "x"'], STEP_ENCODE % {'mode': mode}, PRE,
                          280 if q else 480, family='step_lemma',
                          bound='encode_table_value / field_table on a nested value with an unbounded integer, switch %s'
                                % ('on' if mode else 'off'),
                          rep={'n': 40000, 'k': 'k', 's': 'x', 'b': True}))
    for mode in (0, 1):
        for kl in (1, 2):
            parts.append(Part('step_longkey_%d_mode%d' % (127 + kl, mode), [('n', 'int'), ('k', 'str')],
                              ['-2**40 <= n <= 2**40', 'len(k) == %d' % kl] + ['k[%d] <= "\\x7f"' % i for i in range(kl)],
                              STEP_LONGKEY % {'mode': mode}, PRE, 280 if q else 480, family='step_lemma',
                              bound='encode.field_table three times and frame.marshal twice on a table whose name has '
                                    '%d characters (the last %d arbitrary ASCII; truncation threshold 128), '
                                    'switch %s' % (127 + kl, kl, 'on' if mode else 'off'),
                              rep={'n': 40000, 'k': 'kz'[:kl]}))
    for n in ((8, 12) if q else (8, 12, 14)):
        parts.append(Part('step_decode_%d' % n, [('data', 'bytes')],
                          ['len(data) == %d' % n], STEP_DECODE % {'n': n}, PRE,
                          280 if q else 480, family='step_lemma',
                          bound='frame.unmarshal twice on arbitrary %d bytes (valid and failing decodes)' % n,
                          rep={'data': {'__bytes__': ('0100010000000400' + '0a000bce' * 2)[:2 * n]}}))
    parts.append(Part('step_nested_failures', [('tag', 'int'), ('v0', 'int'), ('v1', 'int')],
                      ['0 <= tag <= 255', '0 <= v0 <= 255', '0 <= v1 <= 255'], STEP_NESTED, PRE,
                      280 if q else 480, family='step_lemma',
                      bound='repeated (mostly failing) decodes of table > array > table > value with an arbitrary '
                            'type tag and two arbitrary value bytes, then a valid nested decode',
                      rep={'tag': 90, 'v0': 0, 'v1': 0}))
    classes = [common.cls_expr(m['name']) for m in spec.METHODS]
    chunks = [classes[i::4] for i in range(4)]
    for i, ch_ in enumerate(chunks):
        parts.append(Part('step_frames_%d' % i, [('ch', 'int'), ('tag', 'int'), ('flag', 'bool')],
                          ['0 <= ch <= 65535', '0 <= tag < 2**32'],
                          STEP_FRAMES.replace('%%', '%'), PRE + '\nCLASSES = [%s]\n' % ', '.join(ch_),
                          280 if q else 480, family='step_lemma',
                          bound='construct with defaults / marshal / unmarshal twice for %d classes; sharing and '
                                'poisoning of default containers; content headers' % len(ch_),
                          rep={'ch': 1, 'tag': 7, 'flag': True}))
    for i, (lo, hi) in enumerate(((2 ** 15, 2 ** 16), (2 ** 31, 2 ** 32), (-129, 128))):
        parts.append(Part('history_%d' % i, [('n', 'int'), ('k', 'str')],
                          ['%d <= n < %d' % (lo, hi), 'len(k) == 1', 'k <= "\\x7f"'], HISTORY, PRE,
                          280 if q else 480, family='history',
                          bound='13 encode/marshal calls interleaved with toggles and failing decodes, n in [%d, %d)' % (lo, hi),
                          rep={'n': lo, 'k': 'k'}))
    parts.append(Part('threads_sequential_history', [('n', 'int')], [], THREADS, PRE, 60, family='history',
                      bound='CONCRETE trace only (no schedule exploration): two long-lived threads and the main '
                            'thread take turns (strictly sequential hand-over) toggling the switch and encoding; '
                            'every call must equal the fresh-interpreter result for the current switch',
                      rep={'n': 40000}, concrete_only=True))
    parts.append(Part('twin_snapshot', [('flag', 'bool')], [],
                      'def body(flag):\n'
                      '    s0 = snapshot()\n'
                      '    commands.Basic.Ack.valid_responses.append("x")\n'
                      '    try:\n'
                      '        return same_state(snapshot(), s0)\n'
                      '    finally:\n'
                      '        commands.Basic.Ack.valid_responses.pop()\n',
                      PRE, 60, expect='refuted', family='step_lemma',
                      bound='vacuity twin: a write to a class-level list must be seen by the snapshot'))
    return parts
