"""C11 - table integers use the smallest fitting type; legacy mode restricts types."""
from engine.part import Part
from harness import common

META = {
    'level': 'model_checking',
    'claim': 'encode.table_integer / encode_table_value / the fixed-width integer encoders are '
             'executed symbolically for an UNBOUNDED symbolic integer (z3 Int): every ladder boundary '
             'and everything beyond 64 bits is covered by construction, in both legacy modes, at top '
             'level and nested in arrays and tables; bytes are compared with the ladder of the '
             'independent reference codec. Toggle histories are covered by enumerating all sequences '
             'of three toggle calls from both initial states (the switch is the only state, so longer '
             'histories follow by induction).',
    'trusted': 'CrossHair + z3; symrt struct model; spec/refcodec.py ladder written from the '
               'documented order b, s, u, I, i, l.',
    'bounds': {'quick': 'n any integer (unbounded); legacy in {off, on, on via argument-less call}; '
                        'positions: bare, encode_table_value, [n], {k: n}, {k: [n]}, [{k: n}] with a '
                        'fixed one-character key; all toggle sequences of length <= 3',
               'thorough': 'same, plus key k symbolic (<= 1 code point) and two integers per container'},
    'outside': 'deeper nesting than 2 (the integer encoder is context-free: position only changes '
               'the surrounding bytes)',
    'cuts': ['exception message formatting'],
}

PRE = common.PRELUDE + '''
def set_mode(mode):
    if mode == 0:
        encode.support_deprecated_rabbitmq(False)
    elif mode == 1:
        encode.support_deprecated_rabbitmq(True)
    else:
        encode.support_deprecated_rabbitmq()
    return mode != 0


def outcome(fn, *a):
    try:
        return ('ok', fn(*a))
    except TypeError:
        return ('TypeError', None)


def ref_outcome(fn, *a):
    try:
        return ('ok', fn(*a))
    except ref.Refused:
        return ('TypeError', None)


def same(got, want):
    if got[0] != want[0]:
        return False
    if got[0] != 'ok':
        return True
    return ref.equal(got[1], want[1])
'''

LADDER = '''
def body(n):
    legacy = set_mode(%(mode)d)
    try:
        ok = same(outcome(encode.table_integer, n), ref_outcome(ref.table_int, n, legacy))
        ok = ok and same(outcome(encode.encode_table_value, n), ref_outcome(ref.field_value, n, legacy))
        ok = ok and same(outcome(encode.field_array, [n]), ref_outcome(ref.array, [n], legacy))
        ok = ok and same(outcome(encode.field_table, hx.table([('k', n)])),
                         ref_outcome(ref.table, hx.table([('k', n)]), legacy))
        ok = ok and same(outcome(encode.field_table, hx.table([('k', [n])])),
                         ref_outcome(ref.table, hx.table([('k', [n])]), legacy))
        ok = ok and same(outcome(encode.field_array, [hx.table([('k', n)])]),
                         ref_outcome(ref.array, [hx.table([('k', n)])], legacy))
        ok = ok and encode.DEPRECATED_RABBITMQ_SUPPORT is legacy
        return ok
    finally:
        encode.support_deprecated_rabbitmq(False)
'''

LEGACY_TAGS = '''
def body(n):
    set_mode(1)
    try:
        r = outcome(encode.encode_table_value, [n, hx.table([('a', n), ('b', [n])])])
        if r[0] != 'ok':
            return n < -2**63 or n > 2**63 - 1
        data = list(r[1])
        # A len4 | tag v | F len4 | 1 'a' tag v | 1 'b' A len4 tag v
        w = ref.flatlen(ref.table_int(n, True)) - 1
        tags = [data[5], data[5 + 1 + w + 1 + 4 + 2], data[5 + 1 + w + 1 + 4 + 2 + 1 + w + 2 + 1 + 4]]
        ok = True
        for t in tags:
            ok = ok and (t == ord('b') or t == ord('s') or t == ord('I') or t == ord('l'))
        return ok and -2**63 <= n <= 2**63 - 1
    finally:
        encode.support_deprecated_rabbitmq(False)
'''

FIXED = '''
def body(n):
    ok = True
    for fn, lo, hi, width, signed in (
            (encode.short_int, -32768, 32767, 2, True), (encode.short_uint, 0, 65535, 2, False),
            (encode.long_int, -2147483648, 2147483647, 4, True), (encode.long_uint, 0, 4294967295, 4, False),
            (encode.long_long_int, -9223372036854775808, 9223372036854775807, 8, True)):
        r = outcome(fn, n)
        if lo <= n <= hi:
            want = ref.s(n, width) if signed else ref.u(n, width)
            ok = ok and r[0] == 'ok' and ref.equal(r[1], want)
        else:
            ok = ok and r[0] == 'TypeError'
    return ok
'''

TOGGLES = '''
def body(n):
    ok = True
    try:
        for init in (0, 1):
            for a in (0, 1, 2):
                for b in (0, 1, 2, 3):
                    for c in (0, 1, 2, 3):
                        set_mode(init)
                        state = set_mode(a)
                        if b != 3:
                            state = set_mode(b)
                        if c != 3:
                            state = set_mode(c)
                        ok = ok and encode.DEPRECATED_RABBITMQ_SUPPORT is state
                        ok = ok and same(outcome(encode.table_integer, n),
                                         ref_outcome(ref.table_int, n, state))
        return ok
    finally:
        encode.support_deprecated_rabbitmq(False)
'''


def partitions(tier, seed):
    parts = []
    for mode, label in ((0, 'off'), (1, 'on'), (2, 'on_noarg')):
        parts.append(Part(name='ladder_' + label, params=[('n', 'int')], pre=[],
                          body=LADDER % {'mode': mode}, prelude=PRE, timeout=200, family='ladder',
                          bound='n unbounded, legacy %s, six positions' % label,
                          rep={'n': 32768}))
    parts.append(Part(name='legacy_tags', params=[('n', 'int')], pre=[], body=LEGACY_TAGS, prelude=PRE,
                      timeout=120, family='legacy_tags', bound='n unbounded, nested array+table',
                      rep={'n': 65535}))
    parts.append(Part(name='fixed_width', params=[('n', 'int')], pre=[], body=FIXED, prelude=PRE,
                      timeout=120, family='fixed_width', bound='n unbounded, five fixed-width encoders',
                      rep={'n': -32769}))
    # toggle sequences: the switch is observed through the two intervals where the modes differ
    # (u and i tags) and one where they agree; all other n are covered per mode by ladder_*
    for i, (lo, hi) in enumerate(((2**15, 2**16), (2**31, 2**32), (-2**15, -128))):
        parts.append(Part(name='toggles_%d' % i, params=[('n', 'int')],
                          pre=['%d <= n < %d' % (lo, hi)], body=TOGGLES, prelude=PRE,
                          timeout=200, family='toggles',
                          bound='all toggle sequences (<= 3 calls, both initial states), n in [%s, %s)' % (lo, hi),
                          rep={'n': lo}))
    parts.append(Part(name='twin_ladder', params=[('n', 'int')], pre=[],
                      body=(LADDER % {'mode': 0}).replace('        return ok\n', '        return not ok\n'),
                      prelude=PRE, timeout=60, expect='refuted', family='ladder', bound='vacuity twin'))
    return parts
