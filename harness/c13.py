"""C13 - argument validation accepts exactly the specified values, on send only."""
import ast
import os
import re

from engine import ksmt
from engine.part import Part
from harness import common
from harness.common import spec

META = {
    'level': 'model_checking',
    'engine': 'crosshair-symrt + ksmt',
    'technique': 'bounded symbolic execution of constructors / marshal over all Unicode strings within the '
                 'bound + SMT string/regex equivalence queries (validators translated from the AST) for '
                 'strings of any length',
    'claim': 'X: for each of the 21 validating classes and Basic.Properties and each constrained argument, '
             'the constructor and marshal-after-setattr are executed on a symbolic value (any code point of '
             'Unicode, any integer, both booleans): ValueError is raised iff the independent spec predicate '
             'says the value is invalid. K1: every generated validate() is translated from the AST into z3 '
             'string/regex/int terms and compared with the spec predicate - "exists s. impl_rejects(s) != '
             'spec_rejects(s)" must be unsat for strings of ANY length (U+0000..U+2FFFF), which covers the '
             '127/256 limits exactly.',
    'trusted': 'spec/amqp091.py CONSTRAINTS; CrossHair regex model (X); z3 sequence/regex theory and the '
               'regex translation through re._parser (K1; unsupported constructs or flags make K1 '
               'inconclusive, X still runs).',
    'bounds': {
        'quick': 'X: names <= 2 code points over all of Unicode (exchange/queue: one class each per '
                 'constraint kind plus every class at <= 1 code point); deprecated fields: any int / str <= 2 '
                 'code points / both bools; lengths X*n for n in {127, 128, 256, 257}; K1: all lengths',
        'thorough': 'X: every class at <= 2 code points; K1 cross-checked on z3 4.8, z3 5.1, cvc5',
    },
    'outside': 'X: names of 3+ code points mixing character classes (K1 covers them up to U+2FFFF)',
    'cuts': ['exception message formatting'],
}

PRE = common.PRELUDE + '''
def name_ok(s, maxlen):
    if len(s) > maxlen:
        return False
    for c in s:
        if not spec.name_char_ok(c):
            return False
    return True


def accepted(cls, kwargs):
    try:
        cls(**kwargs)
    except ValueError:
        return False
    return True


def accepted_after_setattr(cls, good, attr, value, ch):
    f = cls(**good)
    setattr(f, attr, value)
    try:
        frame.marshal(f, ch)
    except ValueError:
        return False
    except struct.error:
        # validation let it through (no ValueError); the wire format cannot carry it (e.g. a queue name
        # of 256 characters does not fit a short string) - that is not a validation verdict
        return True
    return True
'''


def _good_kwargs(m):
    kw = {}
    for (name, wtype, default) in m['args']:
        if default is None and wtype != 'table':
            kw[name] = {'bit': True, 'shortstr': 'x', 'longstr': 'x'}.get(wtype, 1)
    return kw


def _str_part(m, attr, kind, param, maxcp, timeout):
    cls = common.cls_expr(m['name'])
    good = _good_kwargs(m)
    if kind == 'fixed':
        want = 's == %r' % param
    elif kind == 'maxlen':
        want = 'len(s) <= %d' % param
    else:
        want = 'name_ok(s, %d)' % (spec.EXCHANGE_MAXLEN if kind == 'exchange' else spec.QUEUE_MAXLEN)
    body = '\n'.join([
        'def body(s, ch):',
        '    good = %r' % good,
        '    kw = dict(good)',
        '    kw[%r] = s' % attr,
        '    want = %s' % want,
        '    return (accepted(%s, kw) == want' % cls,
        '            and accepted_after_setattr(%s, good, %r, s, ch) == want)' % (cls, attr)])
    return Part(name='v_%s_%s' % (common.safe(m['name']), attr), params=[('s', 'str'), ('ch', 'int')],
                pre=['len(s) <= %d' % maxcp, '0 <= ch <= 65535'], body=body, prelude=PRE, timeout=timeout,
                family='validator_str',
                bound='%s.%s (%s): any string <= %d code points over all of Unicode, at construction and at '
                      'marshal after setattr' % (m['name'], attr, kind, maxcp),
                rep={'s': param if kind == 'fixed' else 'a', 'ch': 1})


def _len_part(m, attr, kind, limit):
    cls = common.cls_expr(m['name'])
    good = _good_kwargs(m)
    body = '\n'.join([
        'def body(ch, pick):',
        '    good = %r' % good,
        '    ok = True',
        '    for c in ("a", "Z", "9", " ", "/", "#"):',
        '        for n, want in ((%d, True), (%d, True), (%d, False), (%d, False)):' % (limit - 1, limit, limit + 1, limit + 2),
        '            kw = dict(good)',
        '            kw[%r] = c * n' % attr,
        '            ok = ok and accepted(%s, kw) == want' % cls,
        '            ok = ok and accepted_after_setattr(%s, good, %r, c * n, ch) == want' % (cls, attr),
        '    return ok'])
    return Part(name='len_%s_%s' % (common.safe(m['name']), attr), params=[('ch', 'int'), ('pick', 'bool')],
                pre=['0 <= ch <= 65535'], body=body, prelude=PRE, timeout=120, family='validator_len',
                bound='%s.%s: X*n for n in {%d..%d}, six legal characters' % (m['name'], attr, limit - 1, limit + 2),
                rep={'ch': 1, 'pick': True})


def _other_part(m, attr, param):
    cls = common.cls_expr(m['name'])
    good = _good_kwargs(m)
    if isinstance(param, bool):
        params, pre = [('v', 'bool'), ('ch', 'int')], ['0 <= ch <= 65535']
        want = 'v is False' if param is False else 'v is True'
        rep = {'v': param, 'ch': 1}
    else:
        params, pre = [('v', 'int'), ('ch', 'int')], ['0 <= ch <= 65535']
        want = 'v == %d' % param
        rep = {'v': param, 'ch': 1}
    body = '\n'.join([
        'def body(v, ch):',
        '    good = %r' % good,
        '    kw = dict(good)',
        '    kw[%r] = v' % attr,
        '    want = %s' % want,
        '    a = accepted(%s, kw)' % cls,
        '    f = %s(**good)' % cls,
        '    setattr(f, %r, v)' % attr,
        '    try:',
        '        frame.marshal(f, ch)',
        '        b = True',
        '    except ValueError:',
        '        b = False',
        '    except (TypeError, struct.error):',
        '        b = False if not want else None   # refused for another reason (out of wire range)',
        '    return a == want and (b is None or b == want)'])
    return Part(name='v_%s_%s' % (common.safe(m['name']), attr), params=params, pre=pre, body=body,
                prelude=PRE, timeout=120, family='validator_fixed',
                bound='%s.%s must equal %r: any %s' % (m['name'], attr, param, params[0][1]), rep=rep)


PROPS = '''
def body(dm, cid, ch):
    try:
        commands.Basic.Properties(delivery_mode=dm, cluster_id=cid)
        a = True
    except ValueError:
        a = False
    want = (dm == 1 or dm == 2) and cid == ""
    ok = a == want
    ok = ok and accepted(commands.Basic.Properties, {}) and accepted(commands.Basic.Properties, {"delivery_mode": None})
    return ok
'''


def partitions(tier, seed):
    q = tier == 'quick'
    parts = []
    seen_kinds = set()
    for name, cons in spec.CONSTRAINTS.items():
        m = spec.BY_NAME[name]
        for (attr, kind, param) in cons:
            wtype = dict((a, t) for a, t, _ in m['args'])[attr]
            if wtype in ('shortstr', 'longstr'):
                first = (kind, wtype) not in seen_kinds
                seen_kinds.add((kind, wtype))
                maxcp = 2 if (first or not q) else 1
                parts.append(_str_part(m, attr, kind, param, maxcp, 250 if q else 480))
                if kind in ('exchange', 'queue', 'maxlen'):
                    limit = {'exchange': spec.EXCHANGE_MAXLEN, 'queue': spec.QUEUE_MAXLEN}.get(kind, param)
                    parts.append(_len_part(m, attr, kind, limit))
            else:
                parts.append(_other_part(m, attr, param))
    parts.append(Part('v_basic_properties', [('dm', 'int'), ('cid', 'str'), ('ch', 'int')],
                      ['len(cid) <= 2', '0 <= ch <= 65535'], PROPS, PRE, 120, family='validator_fixed',
                      bound='Basic.Properties: delivery_mode any integer, cluster_id any string <= 2 code points',
                      rep={'dm': 2, 'cid': '', 'ch': 1}))
    # "decoding a received frame never applies these checks": wire forms with refused values (C05 generators)
    from harness import c05
    for p in c05.partitions(tier, seed):
        if p.name == 'header_flags' or (p.name.startswith('wire_') and p.name.split('wire_')[1].split('_a')[0].split('_b')[0]
                                        in ('queue_declare', 'basic_publish', 'connection_open', 'channel_open',
                                            'exchange_declare', 'basic_getempty', 'connection_openok', 'channel_openok')):
            p.name = 'recv_' + p.name
            p.family = 'no_validation_on_receive'
            parts.append(p)
    tw = _other_part(spec.BY_NAME['Basic.Publish'], 'ticket', 0)
    tw.name, tw.expect, tw.rep = 'twin_v_ticket', 'refuted', None
    tw.body = tw.body.replace('    return a == want', '    return not (a == want)')
    parts.append(tw)
    return parts


# --------------------------------------------------------------------------------------------- K1
_MEASURE = r'''
import json, re, sys
pat, flags = sys.argv[1], int(sys.argv[2])
rx = re.compile(pat, flags)
ok = [i for i in range(0x110000) if rx.fullmatch(chr(i))]
runs, start, prev = [], None, None
for i in ok:
    if start is None:
        start = prev = i
    elif i == prev + 1:
        prev = i
    else:
        runs.append([start, prev]); start = prev = i
if start is not None:
    runs.append([start, prev])
print(json.dumps({"runs": runs, "empty": bool(rx.fullmatch("")), "two": bool(ok) and bool(rx.fullmatch(chr(ok[0]) * 2))}))
'''


def _measured_star_class(pattern, flags):
    """for patterns of the shape ^[class]*$ (any flags): the set of single characters the REAL regex
    engine accepts, measured over all 0x110000 code points (a precomputed static table), as an SMT
    (re.* (re.union ranges)).  Returns None for any other shape."""
    import json
    import subprocess
    import re._parser as sp
    try:
        parsed = list(sp.parse(pattern, flags))
    except Exception:
        return None
    core = [n for n in parsed if n[0] is not sp.AT]
    ats = [n for n in parsed if n[0] is sp.AT]
    if len(core) != 1 or core[0][0] is not sp.MAX_REPEAT or len(ats) > 2:
        return None
    lo, hi, sub = core[0][1]
    sub = list(sub)
    if lo != 0 or hi is not sp.MAXREPEAT or len(sub) != 1 or sub[0][0] is not sp.IN:
        return None
    p = subprocess.run(['/venv/bin/python', '-c', _MEASURE, pattern, str(flags)], capture_output=True,
                       text=True, timeout=300)
    if p.returncode != 0:
        return None
    m = json.loads(p.stdout)
    if not m['empty'] or not m['two'] or not m['runs']:
        return None
    # code points above U+2FFFF are outside z3's character domain: refuse to translate if any is accepted
    if any(b > 0x2FFFF for a, b in m['runs']):
        return None
    rs = ['(re.range %s %s)' % (ksmt.smt_str(chr(a)), ksmt.smt_str(chr(b))) for a, b in m['runs']]
    return '(re.* %s)' % (rs[0] if len(rs) == 1 else '(re.union %s)' % ' '.join(rs))


def _regex_to_smt(pattern, flags):
    """translate a compiled pattern (literal / range / class / star / anchors only) to an SMT RegLan
    for use with fullmatch; returns None when a construct is outside the supported fragment"""
    import re._parser as sp
    if flags & ~(re.UNICODE):
        return _measured_star_class(pattern, flags)
    try:
        parsed = sp.parse(pattern, flags)
    except Exception:
        return None

    def cls_items(items):
        alts = []
        for op, av in items:
            if op is sp.LITERAL:
                alts.append('(str.to_re %s)' % ksmt.smt_str(chr(av)))
            elif op is sp.RANGE:
                alts.append('(re.range %s %s)' % (ksmt.smt_str(chr(av[0])), ksmt.smt_str(chr(av[1]))))
            else:
                return None
        if not alts:
            return None
        return alts[0] if len(alts) == 1 else '(re.union %s)' % ' '.join(alts)

    def seq(nodes):
        out = []
        for i, (op, av) in enumerate(nodes):
            if op is sp.AT:
                if av is sp.AT_BEGINNING and i == 0:
                    continue
                if av is sp.AT_END and i == len(nodes) - 1:
                    continue       # fullmatch: '$' at the very end adds nothing
                return None
            if op is sp.LITERAL:
                out.append('(str.to_re %s)' % ksmt.smt_str(chr(av)))
            elif op is sp.IN:
                c = cls_items(av)
                if c is None:
                    return None
                out.append(c)
            elif op is sp.MAX_REPEAT:
                lo, hi, sub = av
                inner = seq(list(sub))
                if inner is None:
                    return None
                if lo == 0 and hi is sp.MAXREPEAT:
                    out.append('(re.* %s)' % inner)
                elif lo == 1 and hi is sp.MAXREPEAT:
                    out.append('(re.+ %s)' % inner)
                else:
                    return None
            else:
                return None
        if not out:
            return '(str.to_re "")'
        return out[0] if len(out) == 1 else '(re.++ %s)' % ' '.join(out)

    return seq(list(parsed))


_DOMAIN_RX = r'''
import json, re, sys
sys.path.insert(0, sys.argv[1])
from pamqp import constants
print(json.dumps({k: ([v.pattern, int(v.flags)] if isinstance(v, re.Pattern) and isinstance(v.pattern, str) else None)
                  for k, v in constants.DOMAIN_REGEX.items()}))
'''


def _domain_regexes(repo):
    # the compiled objects of the real module (a shared or renamed pattern constant is followed: sixth
    # seeded round, H13_1); the syntactic reading below is the fallback
    import json
    import subprocess
    try:
        p = subprocess.run(['/venv/bin/python', '-c', _DOMAIN_RX, repo], capture_output=True, text=True,
                           timeout=60, cwd='/')
        if p.returncode == 0:
            return {k: (tuple(v) if v else None) for k, v in json.loads(p.stdout).items()}
    except Exception:
        pass
    tree = ast.parse(open(os.path.join(repo, 'pamqp', 'constants.py')).read())
    out = {}
    for node in tree.body:
        if isinstance(node, ast.Assign) and getattr(node.targets[0], 'id', '') == 'DOMAIN_REGEX':
            for k, v in zip(node.value.keys, node.value.values):
                key = ast.literal_eval(k)
                if isinstance(v, ast.Call) and ast.unparse(v.func) == 're.compile' and v.args:
                    try:
                        pat = ast.literal_eval(v.args[0])
                        fl = 0
                        for extra in list(v.args[1:]) + [kw.value for kw in v.keywords]:
                            fl |= int(eval(ast.unparse(extra), {'re': re}))
                        out[key] = (pat, fl)
                    except Exception:
                        out[key] = None
                else:
                    out[key] = None
    return out


def _translate_validate(fn, regexes):
    """-> dict attr -> list of SMT terms (over const `s` String / `n` Int / `b` Bool) meaning
    'validate raises for this value', or None if a statement is outside the fragment"""
    res = {}

    def attr_of(node):
        if isinstance(node, ast.Attribute) and isinstance(node.value, ast.Name) and node.value.id == 'self':
            return node.attr
        return None

    for st in fn.body:
        if isinstance(st, ast.Expr) and isinstance(st.value, ast.Constant):
            continue
        if not (isinstance(st, ast.If) and not st.orelse and len(st.body) == 1
                and isinstance(st.body[0], ast.Raise)):
            return None
        exc = st.body[0].exc
        if not (isinstance(exc, ast.Call) and getattr(exc.func, 'id', '') == 'ValueError'):
            return None
        t = st.test
        if not (isinstance(t, ast.BoolOp) and isinstance(t.op, ast.And) and len(t.values) == 2):
            return None
        guard, cond = t.values
        if not (isinstance(guard, ast.Compare) and len(guard.ops) == 1 and isinstance(guard.ops[0], ast.IsNot)
                and attr_of(guard.left) and isinstance(guard.comparators[0], ast.Constant)
                and guard.comparators[0].value is None):
            return None
        a = attr_of(guard.left)
        term = None
        if isinstance(cond, ast.Compare) and len(cond.ops) == 1:
            left, op, right = cond.left, cond.ops[0], cond.comparators[0]
            if (isinstance(left, ast.Call) and getattr(left.func, 'id', '') == 'len' and attr_of(left.args[0]) == a
                    and isinstance(op, ast.Gt) and isinstance(right, ast.Constant) and isinstance(right.value, int)):
                term = ('str', '(> (str.len s) %d)' % right.value)
            elif attr_of(left) == a and isinstance(op, ast.NotEq) and isinstance(right, ast.Constant):
                if isinstance(right.value, str):
                    term = ('str', '(not (= s %s))' % ksmt.smt_str(right.value))
                elif isinstance(right.value, int) and not isinstance(right.value, bool):
                    term = ('int', '(not (= n %d))' % right.value)
            elif attr_of(left) == a and isinstance(op, ast.IsNot) and isinstance(right, ast.Constant) \
                    and right.value is False:
                term = ('bool', 'b')
        elif isinstance(cond, ast.UnaryOp) and isinstance(cond.op, ast.Not) and isinstance(cond.operand, ast.Call):
            call = cond.operand
            f = call.func
            if (isinstance(f, ast.Attribute) and f.attr == 'fullmatch' and isinstance(f.value, ast.Subscript)
                    and ast.unparse(f.value.value) == 'constants.DOMAIN_REGEX' and call.args
                    and attr_of(call.args[0]) == a):
                key = ast.literal_eval(f.value.slice)
                rx = regexes.get(key)
                if rx is None:
                    return None
                smt = _regex_to_smt(*rx)
                if smt is None:
                    return None
                term = ('str', '(not (str.in_re s %s))' % smt)
        if term is None:
            return None
        res.setdefault(a, []).append(term)
    return res


def _spec_term(kind, param):
    cls = '(re.* (re.union %s))' % ' '.join(
        '(re.range %s %s)' % (ksmt.smt_str(a), ksmt.smt_str(b))
        for a, b in (('a', 'z'), ('A', 'Z'), (',', ':'), (' ', ' '), ('#', '#'), ('@', '@'), ('_', '_')))
    if kind == 'fixed':
        if isinstance(param, bool):
            return 'bool', 'b' if param is False else '(not b)'
        if isinstance(param, int):
            return 'int', '(not (= n %d))' % param
        return 'str', '(not (= s %s))' % ksmt.smt_str(param)
    if kind == 'maxlen':
        return 'str', '(> (str.len s) %d)' % param
    limit = spec.EXCHANGE_MAXLEN if kind == 'exchange' else spec.QUEUE_MAXLEN
    return 'str', '(or (> (str.len s) %d) (not (str.in_re s %s)))' % (limit, cls)


def kernels(tier, seed):
    repo = os.environ.get('VERIF_REPO', '/repo')
    regexes = _domain_regexes(repo)
    tree = ast.parse(open(os.path.join(repo, 'pamqp', 'commands.py')).read())
    impl = {}
    for node in tree.body:
        if isinstance(node, ast.ClassDef):
            for sub in node.body:
                if isinstance(sub, ast.ClassDef):
                    for fn in sub.body:
                        if isinstance(fn, ast.FunctionDef) and fn.name == 'validate':
                            impl['%s.%s' % (node.name, sub.name)] = _translate_validate(fn, regexes)
    queries, skipped = [], []
    # classes that validate but should not, or vice versa
    extra = sorted(set(k for k in impl if k != 'Basic.Properties') ^ set(spec.CONSTRAINTS))
    for name, cons in spec.CONSTRAINTS.items():
        tr = impl.get(name)
        if tr is None:
            skipped.append(name)
            continue
        attrs = set(a for a, _, _ in cons) | set(tr)
        for a in sorted(attrs):
            sp_terms = [_spec_term(k, p) for (aa, k, p) in cons if aa == a]
            im_terms = tr.get(a, [])
            sorts = set(t for t, _ in sp_terms + im_terms)
            if len(sorts) != 1:
                queries.append(('%s.%s' % (name, a), '(assert true)', ['s']))   # sort clash: report as sat
                continue
            so = sorts.pop()
            lhs = '(or false %s)' % ' '.join(t for _, t in im_terms)
            rhs = '(or false %s)' % ' '.join(t for _, t in sp_terms)
            var = {'str': 's', 'int': 'n', 'bool': 'b'}[so]
            queries.append(('%s.%s' % (name, a), '(assert (not (= %s %s)))' % (lhs, rhs), [var]))
    pre = '(set-logic ALL)\n(declare-const s String)\n(declare-const n Int)\n(declare-const b Bool)\n'
    solvers = ['z3-5.1'] if tier == 'quick' else [x for x in ('z3-5.1', 'z3-4.8', 'cvc5') if x in ksmt.available()]
    if 'z3-5.1' not in ksmt.available():
        solvers = ksmt.available()[:1]
    out = []
    for sname in solvers:
        # z3 5.1 decides every query in milliseconds; the older z3 and cvc5 are a cross-check with a short
        # per-query limit (some regex-inclusion queries take them minutes: reported as inconclusive)
        for r in ksmt.run_batch(sname, pre, queries, timeout_s=120 if sname == 'z3-5.1' else 10):
            kr = {'name': 'K1 ' + r['name'] + '@' + sname, 'status': r['status'], 'solver': sname, 'queries': 1,
                  'solver_time_s': r['solver_time_s'], 'bound': 'strings of any length over U+0000..U+2FFFF; '
                  'any integer; both booleans', 'detail': ''}
            if r['status'] == 'sat':
                cname, attr = r['name'].rsplit('.', 1)
                val = None
                for var, lit in r['values'].items():
                    if var == 's':
                        val = ksmt.parse_smt_string(lit)
                    elif var == 'n':
                        val = ksmt.parse_smt_int(lit)
                    else:
                        val = lit.strip() == 'true'
                kr['detail'] = 'witness %r' % (val,)
                kr['replay_part'] = _witness_part()
                kr['replay_args'] = {'cname': cname, 'attr': attr, 'value': val}
            elif r['status'] != 'unsat':
                kr['detail'] = r['raw'][:200]
            out.append(kr)
    for name in skipped:
        out.append({'name': 'K1 ' + name, 'status': 'unknown', 'solver': 'n/a', 'queries': 0, 'solver_time_s': 0,
                    'detail': 'validate() or its regex is outside the translated fragment (Engine X still runs)'})
    if extra:
        out.append({'name': 'K1 validating_classes', 'status': 'sat', 'solver': 'ast', 'queries': 0,
                    'solver_time_s': 0, 'detail': 'classes with/without validate() differ from the spec: %s' % extra,
                    'replay_part': _witness_part(), 'replay_args': {'cname': extra[0], 'attr': '', 'value': None}})
    return out


WITNESS = '''
def body(cname, attr, value):
    m = spec.BY_NAME.get(cname)
    cons = spec.CONSTRAINTS.get(cname, [])
    cls = getattr(getattr(commands, cname.split(".")[0]), cname.split(".")[1])
    if attr == "":
        return ("validate" in vars(cls)) == (cname in spec.CONSTRAINTS)
    kw = {}
    for (name, wtype, default) in m["args"]:
        if default is None and wtype != "table":
            kw[name] = {"bit": True, "shortstr": "x", "longstr": "x"}.get(wtype, 1)
    kw[attr] = value
    want = True
    for (a, kind, param) in cons:
        if a != attr:
            continue
        if kind == "fixed":
            want = want and (value == param and type(value) is type(param))
        elif kind == "maxlen":
            want = want and len(value) <= param
        else:
            lim = spec.EXCHANGE_MAXLEN if kind == "exchange" else spec.QUEUE_MAXLEN
            want = want and len(value) <= lim and all(spec.name_char_ok(c) for c in value)
    try:
        cls(**kw)
        got = True
    except ValueError:
        got = False
    return got == want
'''


def _witness_part():
    return Part(name='validator_witness', params=[('cname', 'str'), ('attr', 'str'), ('value', 'str')], pre=[],
                body=WITNESS, prelude=common.PRELUDE, timeout=60, family='validator_witness',
                bound='one (class, argument, value)')
