"""C12 - encoding is deterministic, order-independent and does not mutate its input."""
from engine.part import Part
from harness import common

META = {
    'level': 'model_checking',
    'claim': 'Tables with 2 and 3 symbolic distinct keys are built in every insertion order (2!, 3!), at '
             'top level, nested in a table and nested in an array; all orders must encode to the same '
             'bytes, which must equal the independent reference encoding (ascending key order at every '
             'level); encoding twice must give equal bytes; a structural snapshot of the input (items of '
             'every dict in insertion order, list elements, bytearray contents, frame attributes and '
             'object identities) taken before must equal the one taken after. Keys longer than 128 '
             'characters sharing a 128-character prefix are covered with concrete samples.',
    'trusted': 'CrossHair + z3; symrt models; spec/refcodec.py (sorted reference encoder).',
    'bounds': {
        'quick': 'keys: 1 code point (2-key tables: any code point; 3-key: ASCII); values: 16-bit ints, '
                 'bools, strings <= 1 code point; nesting: table-in-table, table-in-array; frames: '
                 'Queue.Declare, Connection.StartOk, ContentHeader with headers; long-key samples',
        'thorough': 'keys <= 2 code points for 2-key tables, 3-key tables with any 1-code-point keys',
    },
    'outside': 'tables with more than 3 keys per level; depth > 2',
    'cuts': ['exception message formatting', 'LOGGER calls (key truncation warning)'],
}

PRE = common.PRELUDE + '''
import itertools


def snap(v):
    """structural snapshot: dict items in insertion order, list elements, bytearray contents"""
    if isinstance(v, dict):
        return ('dict', [(k, snap(x)) for k, x in v.items()])
    if isinstance(v, list):
        return ('list', [snap(x) for x in v])
    if isinstance(v, bytearray):
        return ('bytearray', list(v))
    return v


def enc_all_orders(pairs, wrap):
    """encode wrap(table) for every insertion order of pairs; all outputs equal; equals reference;
    encoding twice is equal; inputs unchanged"""
    first = None
    for perm in itertools.permutations(range(len(pairs))):
        tbl = hx.table([pairs[i] for i in perm])
        value = wrap(tbl)
        before = snap(value)
        if isinstance(value, dict):
            out1, out2 = encode.field_table(value), encode.field_table(value)
            want = ref.table(value)
        else:
            out1, out2 = encode.field_array(value), encode.field_array(value)
            want = ref.array(value)
        if snap(value) != before:
            return False
        out1 = hx.fix(out1)
        if list(out1) != list(out2) or not ref.equal(out1, want):
            return False
        if first is None:
            first = out1
        elif list(first) != list(out1):
            return False
    return True
'''

TWO = '''
def body(k0, k1, a, b, s):
    pairs = [(k0, a), (k1, [b, s])]
    return (enc_all_orders(pairs, lambda t: t)
            and enc_all_orders(pairs, lambda t: hx.table([("outer", t), ("a", 1)]))
            and enc_all_orders(pairs, lambda t: [7, t, "x"]))
'''

THREE = '''
def body(k0, k1, k2, a, b):
    pairs = [(k0, a), (k1, b), (k2, None)]
    return (enc_all_orders(pairs, lambda t: t)
            and enc_all_orders(pairs, lambda t: hx.table([("z", [t])])))
'''

LONGKEYS = '''
def body(a, b):
    p, q = "A" * 128 + "x", "A" * 128 + "y"
    pairs = [(p, a), (q, b), ("B" * 127, 1)]
    outs = []
    for perm in itertools.permutations(range(3)):
        tbl = hx.table([pairs[i] for i in perm])
        before = snap(tbl)
        o1 = encode.field_table(tbl)
        o2 = encode.field_table(hx.table([("n", [tbl])]))
        if snap(tbl) != before:
            return False
        outs.append((list(hx.fix(o1)), list(hx.fix(o2))))
    for o in outs[1:]:
        if o != outs[0]:
            return False
    return True
'''

ARRAY_ORDER = '''
def body(a, b, c):
    v = [a, b, c, [c, a]]
    before = snap(v)
    out = hx.fix(encode.field_array(v))
    return snap(v) == before and ref.equal(out, ref.array(v)) and list(out) == list(encode.field_array(v))
'''

TWINS = '''
def body(n):
    """values that compare equal but encode differently must not influence one another: each table is
    encoded, then its twin, then the first again; every output equals the reference bytes"""
    pairs = [(-0.0, 0.0), (decimal.Decimal("1.00"), decimal.Decimal("1.0")), (2.0, decimal.Decimal("2")),
             (decimal.Decimal("0.125"), 0.125), (1, True), (0, False), (1.0, 1), ("a", "a"),
             (decimal.Decimal("-0.0"), decimal.Decimal("0")), (2.5, decimal.Decimal("2.50"))]
    ok = True
    for a, b in pairs:
        ta, tb = hx.table([("k", a), ("n", n)]), hx.table([("k", b), ("n", n)])
        ra = ref.table(ta, False, hx.single_bits, None)
        rb = ref.table(tb, False, hx.single_bits, None)
        o1 = hx.fix(encode.field_table(ta))
        o2 = hx.fix(encode.field_table(tb))
        o3 = hx.fix(encode.field_table(ta))
        o4 = hx.fix(encode.field_array([b, a, b]))
        ok = ok and ref.equal(o1, ra) and ref.equal(o2, rb) and list(o3) == list(o1)
        ok = ok and ref.equal(o4, ref.array([b, a, b], False, hx.single_bits, None))
    return ok
'''

FRAMES = '''
def body(ch, k0, k1, a, q, durable):
    args = hx.table([(k1, a), (k0, [a])])
    ba = bytearray([1, 2, 3])
    lst = [3, 1, 2]
    hdrs = hx.table([(k1, ba), (k0, lst)])
    try:
        m = commands.Queue.Declare(0, q, False, durable, False, False, False, args)
    except ValueError:
        return hx.rejected()
    p = commands.Basic.Properties(headers=hdrs, priority=a % 256)
    tsobj = hx.dt(1700000000 + a, 5, None)          # naive timestamp assigned after construction
    p.timestamp = tsobj
    ts_before = hx.dt_parts(p.timestamp)
    h = header.ContentHeader(5, 10, p)                # non-zero weight must survive encoding as well
    so = commands.Connection.StartOk(args, "PLAIN", "r", "en_US")
    ok = True
    for f in (m, h, so):
        if isinstance(f, base.Frame):
            before = [(k, snap(v)) for k, v in f]
        else:
            before = [(k, snap(v)) for k, v in f.properties if k != "timestamp"] + [("body_size", f.body_size), ("weight", f.weight)]
        o1 = frame.marshal(f, ch)
        o2 = frame.marshal(f, ch)
        if isinstance(f, base.Frame):
            after = [(k, snap(v)) for k, v in f]
        else:
            after = [(k, snap(v)) for k, v in f.properties if k != "timestamp"] + [("body_size", f.body_size), ("weight", f.weight)]
        ok = ok and list(o1) == list(o2) and before == after
    ok = ok and m.arguments is args and so.client_properties is args and p.headers is hdrs
    ok = ok and list(ba) == [1, 2, 3] and lst == [3, 1, 2] and h.properties is p
    ok = ok and p.timestamp is tsobj and hx.dt_parts(p.timestamp) == ts_before and ts_before[0] is False
    return ok
'''


def partitions(tier, seed):
    q = tier == 'quick'
    parts = []
    klen = 'len(%s) == 1' if q else '1 <= len(%s) <= 2'
    two_pre = [klen % 'k0', klen % 'k1', 'k0 != k1', '-2**15 <= a < 2**15']
    if q:
        two_pre += ['k0 <= "\\u07ff"', 'k1 <= "\\u07ff"']
    for wname, wrap in (('top', 'lambda t: t'), ('in_table', 'lambda t: hx.table([("outer", t), ("a", 1)])'),
                        ('in_array', 'lambda t: [7, t, "x"]')):
        parts.append(Part('two_keys_' + wname, [('k0', 'str'), ('k1', 'str'), ('a', 'int'), ('b', 'bool')],
                          two_pre,
                          'def body(k0, k1, a, b):\n'
                          '    return enc_all_orders([(k0, a), (k1, [b, "s"])], %s)\n' % wrap,
                          PRE, 280 if q else 480, family='order_independence',
                          bound='2 distinct keys (%s), both insertion orders, %s'
                                % ('1 code point <= U+07FF' if q else '<= 2 code points', wname),
                          rep={'k0': 'b', 'k1': 'a', 'a': -5, 'b': True}))
    three_pre = ['len(k0) == 1', 'len(k1) == 1', 'len(k2) == 1', 'k0 != k1', 'k0 != k2', 'k1 != k2',
                 '-2**15 <= a < 2**15', '-2**15 <= b < 2**15']
    if q:
        three_pre += ['k0 <= "\\x7f"', 'k1 <= "\\x7f"', 'k2 <= "\\x7f"']
    import itertools as _it
    for wname, wrap in (('top', 'lambda t: t'), ('nested', 'lambda t: hx.table([("z", [t])])')):
        # one partition per relative order of the three keys
        for o in _it.permutations(range(3)):
            order = ['k%d' % i for i in o]
            parts.append(Part('three_keys_%s_%s' % (wname, ''.join(str(i) for i in o)),
                              [('k0', 'str'), ('k1', 'str'), ('k2', 'str'), ('a', 'int'), ('b', 'int')],
                              [c for c in three_pre if '!=' not in c] + ['%s < %s' % (order[0], order[1]),
                                                                        '%s < %s' % (order[1], order[2])],
                              'def body(k0, k1, k2, a, b):\n'
                              '    return enc_all_orders([(k0, a), (k1, b), (k2, None)], %s)\n' % wrap,
                              PRE, 280 if q else 480, family='order_independence',
                              bound='3 distinct keys with %s, all 6 insertion orders, %s' % (' < '.join(order), wname),
                              rep={order[0]: 'a', order[1]: 'b', order[2]: 'c', 'a': 1, 'b': 100}))
    parts.append(Part('long_keys', [('a', 'int'), ('b', 'int')], ['-2**31 <= a < 2**31', '-2**31 <= b < 2**31'],
                      LONGKEYS, PRE, 200, family='order_independence',
                      bound='keys of 129 characters sharing a 128-character prefix, all 6 insertion orders',
                      rep={'a': 1, 'b': 2}))
    parts.append(Part('array_order', [('a', 'int'), ('b', 'int'), ('c', 'int')],
                      ['-2**63 <= a < 2**63', '-2**15 <= b < 2**15', '-2**15 <= c < 2**15'],
                      ARRAY_ORDER, PRE, 200, family='no_mutation',
                      bound='arrays keep their element order; input list unchanged', rep={'a': 3, 'b': 1, 'c': 2}))
    parts.append(Part('frames', [('ch', 'int'), ('k0', 'str'), ('k1', 'str'), ('a', 'int'), ('q', 'str'), ('durable', 'bool')],
                      ['0 <= ch <= 65535', 'len(k0) == 1', 'len(k1) == 1', 'k0 != k1', 'k0 <= "\\x7f"', 'k1 <= "\\x7f"',
                       '-2**15 <= a < 2**15', 'len(q) <= 1'],
                      FRAMES.replace('q, False, durable', 'q if hx.SYM or True else q, False, durable'), PRE, 280,
                      family='no_mutation',
                      bound='Queue.Declare, ContentHeader(headers with bytearray and list), Connection.StartOk: '
                            'marshal twice, attributes / identities / contents unchanged',
                      rep={'ch': 1, 'k0': 'b', 'k1': 'a', 'a': 7, 'q': 'q', 'durable': True}))
    parts.append(Part('scalar_twins', [('n', 'int')], ['-2**15 <= n < 2**15'], TWINS, PRE, 200, family='determinism',
                      bound='10 pairs of equal-comparing values with different encodings (signed zeros, Decimals of '
                            'different scale, float vs Decimal, int vs bool), interleaved encodings vs reference',
                      rep={'n': 7}))
    parts.append(Part('twin_two_keys', [('k0', 'str'), ('k1', 'str'), ('a', 'int')],
                      ['len(k0) == 1', 'len(k1) == 1', 'k0 != k1', '-2**15 <= a < 2**15'],
                      'def body(k0, k1, a):\n    return not enc_all_orders([(k0, a), (k1, a)], lambda t: t)\n',
                      PRE, 60, expect='refuted', family='order_independence', bound='vacuity twin'))
    return parts
