"""C03 - field tables and arrays round-trip with value and type preserved."""
from engine.part import Part
from harness import common

META = {
    'level': 'model_checking',
    'claim': 'Leaf lemma per field-value kind with trailing bytes - decode.embedded_value('
             'encode.encode_table_value(v) + t) == (len(encoding), N(v)) - executed symbolically over '
             'the full value range of each kind (all 64-bit integers, all 2^64 double bit patterns via '
             'z3 FP, all instants 0..2^32-1 x microsecond x utc offset, any code points), plus '
             'container templates with symbolic leaves for composition, type preservation and exact '
             'consumption. Decimal values are enumerated inside the bound (CrossHair realizes Decimal '
             'internals), which is stated in the evidence.',
    'trusted': 'CrossHair + z3; symrt struct/float/CBytes/SymDT/hash-free-dict models (self-tested); '
               'K3 lemma (IEEE half-ulp bound) for datetime.timestamp() truncation.',
    'bounds': {
        'quick': 'int: all of [-2^63, 2^63-1]; bool; None; float: all doubles; str <= 2 code points; '
                 'bytearray <= 4 bytes; Decimal: sign x coefficient 0..20 x exponent -9..3 plus '
                 'boundary strings; datetime: instants 0..2^32-1, microsecond, naive/utc/offset '
                 '+-14h; struct_time: concrete boundary set; containers: templates with <= 2 '
                 'container nodes and <= 2 leaves (leaf kinds int, bool, None, str <= 1 code point; '
                 'int64 and keys <= 1 code point in one-leaf templates, 16-bit ints and one-character '
                 'ASCII keys in two-leaf templates); trailing bytes |t| = 2 arbitrary',
        'thorough': 'str <= 3 code points; bytearray <= 8; Decimal coefficient 0..999; containers '
                    '<= 3 leaves, 3-key tables; trailing |t| <= 4',
    },
    'outside': 'depth > 3 (the property names depth 32), strings > 3 code points, Decimal > 3 digits '
               'except the listed boundary strings, keys other than <= 1 code point and the listed X*n samples',
    'cuts': ['exception message formatting', 'LOGGER calls (key truncation warning)'],
    'assumptions': ['K3: trunc(RNE((sec*10^6+us)/10^6)) == sec for 0 <= sec < 2^32 (LRA query with '
                    'the IEEE-754 half-ulp bound, discharged by harness c15 kernels)'],
}

PRE = common.PRELUDE + '''
def eqv(g, w):
    """decoded value g equals original w in value AND type (C03 normalisation for leaves)"""
    if isinstance(w, bool):
        return type(g) is bool and g == w
    if isinstance(w, int):
        return type(g) is int and g == w
    if w is None:
        return g is None
    if isinstance(w, str):
        return type(g) is str and g == w
    if isinstance(w, list):
        if type(g) is not list or len(g) != len(w):
            return False
        for a, b in zip(g, w):
            if not eqv(a, b):
                return False
        return True
    if isinstance(w, dict):
        if not isinstance(g, dict) or len(g) != len(w):
            return False
        for k in w:
            if k not in g or not eqv(g[k], w[k]):
                return False
        return True
    return False


def rt(v, t, n):
    """leaf lemma: encode, append trailing bytes, decode; -> (consumed == len(enc), decoded)"""
    enc = hx.fix(encode.encode_table_value(v))
    data = enc + hx.buf(hx.blist(t, n))
    consumed, got = decode.embedded_value(data)
    return consumed == len(enc), got


def leaf(sel, i, s, b):
    if sel == 0:
        return i
    if sel == 1:
        return s
    if sel == 2:
        return b
    return None
'''

LEAF_INT = '''
def body(n, t):
    ok, got = rt(n, t, %(tl)d)
    return ok and type(got) is int and got == n
'''
LEAF_BOOL = '''
def body(b, t):
    ok, got = rt(b, t, %(tl)d)
    ok2, got2 = rt(None, t, %(tl)d)
    return ok and type(got) is bool and got == b and ok2 and got2 is None
'''
LEAF_FLOAT = '''
def body(bits, t):
    x = hx.double(bits)
    try:
        enc = encode.encode_table_value(x)
    except OverflowError:
        # allowed only for finite values whose magnitude rounds beyond the binary32 range:
        # |x| >= 0x1.ffffffp127 (bits 0x47EFFFFFF0000000) and finite (exponent field below 0x7FF)
        mag = bits %% 2**63
        return 0x47EFFFFFF0000000 <= mag < 0x7FF0000000000000
    enc = hx.fix(enc)
    consumed, got = decode.embedded_value(enc + hx.buf(hx.blist(t, %(tl)d)))
    if consumed != 5 or len(enc) != 5 or enc[0] != ord('f') or type(got) is not float:
        return False
    want = hx.to_single(x)
    if hx.isnan(x):
        return hx.isnan(got)
    return got == want and hx.same_sign(got, want)
'''
LEAF_STR = '''
def body(s, t):
    ok, got = rt(s, t, %(tl)d)
    return ok and type(got) is str and got == s
'''
LEAF_BA = '''
def body(ba, t):
    v = bytearray(ba)
    ok, got = rt(v, t, %(tl)d)
    return ok and isinstance(got, bytearray) and got == v and len(got) == len(ba)
'''
LEAF_DEC = '''
def body(neg, coef, t):
    d = decimal.Decimal((1 if neg else 0, tuple(int(c) for c in str(hx.realize(coef))), %(exp)d))
    try:
        ref.decimal_parts(d)
    except ref.Refused:
        return hx.rejected()     # outside the encodable domain of the property (scale/32-bit)
    ok, got = rt(d, t, %(tl)d)
    ok = ok and type(got) is decimal.Decimal and got == d and got.is_signed() == (d.is_signed() and d != 0)
    # the decoded value re-encodes to the same octets (scale preserved, e.g. 1.10 stays 1.10)
    return ok and list(encode.encode_table_value(got)) == list(encode.encode_table_value(d))
'''
LEAF_DEC_STR = '''
def body(neg, t):
    d = decimal.Decimal(%(lit)r)
    if neg:
        d = -d
    ok, got = rt(d, t, %(tl)d)
    return (ok and type(got) is decimal.Decimal and got == d
            and list(encode.encode_table_value(got)) == list(encode.encode_table_value(d)))
'''
LEAF_DT = '''
def body(wall, us, off, o1, o2, t):
    hx.env([o1, o2])
    kind = %(kind)d
    if kind == 0:
        v, epoch = hx.dt(wall, us, None), wall       # naive: read as UTC
    elif kind == 1:
        v, epoch = hx.dt(wall, us, 0), wall
    else:
        v, epoch = hx.dt(wall, us, off), wall - off
    if not (0 <= epoch < 2**32):
        return hx.rejected()
    ok, got = rt(v, t, %(tl)d)
    p = hx.dt_parts(got)
    return ok and p is not None and p[0] is True and p[1] == epoch and p[2] == 0 and p[3] == 0
'''
LEAF_ST = '''
def body(o1, t):
    hx.env([o1])
    ok = True
    for epoch in (0, 1, 86399, 86400, 951782400, 1089590400, 1099184400, 2147483647, 2147483648, 4294967295):
        st = time.gmtime(epoch)
        c, got = rt(st, t, %(tl)d)
        p = hx.dt_parts(got)
        ok = ok and c and p is not None and p[0] is True and p[1] == epoch and p[2] == 0 and p[3] == 0
    return ok
'''

# container templates: name -> (python expr building the value from leaves l0, l1, l2 and keys k0, k1, k2,
#                               number of leaves, number of keys)
TEMPLATES = {
    'empty_list': ('[]', 0, 0),
    'empty_dict': ('hx.table([])', 0, 0),
    'list1': ('[l0]', 1, 0),
    'dict1': ('hx.table([(k0, l0)])', 1, 1),
    'list2': ('[l0, l1]', 2, 0),
    'dict2': ('hx.table([(k0, l0), (k1, l1)])', 2, 2),
    'list_list': ('[[l0]]', 1, 0),
    'list_dict': ('[hx.table([(k0, l0)])]', 1, 1),
    'dict_list': ('hx.table([(k0, [l0])])', 1, 1),
    'dict_dict': ('hx.table([(k0, hx.table([(k1, l0)]))])', 1, 2),
    'list_empty': ('[[], hx.table([])]', 0, 0),
    'dict_empty': ('hx.table([(k0, []), (k1, hx.table([]))])', 0, 2),
    'list_mixed': ('[l0, [l1]]', 2, 0),
    'dict_mixed': ('hx.table([(k0, l0), (k1, [l1])])', 2, 2),
}
TEMPLATES_THOROUGH = {
    'list3': ('[l0, l1, l2]', 3, 0),
    'dict3': ('hx.table([(k0, l0), (k1, l1), (k2, l2)])', 3, 3),
    'deep3': ('[hx.table([(k0, [l0, l1])])]', 2, 1),
    'deep3b': ('hx.table([(k0, [hx.table([(k1, l0)])])])', 1, 2),
    'list_dict2': ('[hx.table([(k0, l0), (k1, l1)]), l2]', 3, 2),
}


def _tpl_part(name, expr, nleaf, nkey, tl, timeout, narrow=False):
    params, pre, args = [], [], []
    for j in range(nleaf):
        params += [('sel%d' % j, 'int'), ('i%d' % j, 'int'), ('s%d' % j, 'str'), ('b%d' % j, 'bool')]
        pre += ['0 <= sel%d <= 3' % j, 'len(s%d) <= 1' % j]
        # narrow: multi-leaf templates in the quick tier use the 8/16-bit part of the ladder only
        # (the full ladder is covered by leaf_int and the one-leaf templates)
        pre.append('-2**15 <= i%d < 2**15' % j if narrow else '-2**63 <= i%d < 2**63' % j)
    for j in range(nkey):
        params.append(('k%d' % j, 'str'))
        if narrow and nkey >= 2:
            pre += ['len(k%d) == 1' % j, 'k%d <= "\\u007f"' % j]
        else:
            pre.append('len(k%d) <= 1' % j)
    for a in range(nkey):
        for b in range(a + 1, nkey):
            # distinct keys only where the two keys live in the same table
            if name in ('dict2', 'dict3', 'dict_empty', 'dict_mixed', 'list_dict2') or \
                    (name == 'dict3'):
                pre.append('k%d != k%d' % (a, b))
    params.append(('t', 'bytes'))
    pre.append('len(t) == %d' % tl)
    names = [p for p, _ in params]
    lines = ['def body(%s):' % ', '.join(names)]
    for j in range(nleaf):
        lines.append('    l%d = leaf(sel%d, i%d, s%d, b%d)' % (j, j, j, j, j))
    lines += ['    v = %s' % expr,
              '    ok, got = rt(v, t, %d)' % tl,
              '    ok = ok and eqv(got, v)',
              '    if isinstance(v, dict):',
              '        c2, g2 = decode.field_table(hx.fix(encode.field_table(v)) + hx.buf(hx.blist(t, %d)))' % tl,
              '        ok = ok and eqv(g2, v) and c2 == len(encode.field_table(v))',
              '    else:',
              '        c2, g2 = decode.field_array(hx.fix(encode.field_array(v)) + hx.buf(hx.blist(t, %d)))' % tl,
              '        ok = ok and eqv(g2, v) and c2 == len(encode.field_array(v))',
              '    return ok']
    rep = {}
    for j in range(nleaf):
        rep.update({'sel%d' % j: j % 4, 'i%d' % j: -129 - j, 's%d' % j: 'é', 'b%d' % j: True})
    for j in range(nkey):
        rep['k%d' % j] = 'k%d' % j if False else chr(ord('a') + j)
    rep['t'] = {'__bytes__': ('ce46' * 4)[:tl * 2]}
    return Part(name='tpl_' + name, params=params, pre=pre, body='\n'.join(lines), prelude=PRE,
                timeout=timeout, family='container_templates',
                bound='template %s with %d symbolic leaves (%s | str<=1 | bool | None), %d keys (%s), '
                      '%d arbitrary trailing bytes'
                      % (expr, nleaf, 'int in [-2^15, 2^15)' if narrow else 'int64', nkey,
                         '1 ASCII character' if (narrow and nkey >= 2) else '<= 1 code point', tl),
                rep=rep)


def partitions(tier, seed):
    q = tier == 'quick'
    tl = 2 if q else 4
    parts = []
    T = [('t', 'bytes')]
    TP = ['len(t) == %d' % tl]
    trep = {'__bytes__': ('ce46' * 4)[:tl * 2]}
    parts.append(Part('leaf_int', [('n', 'int')] + T, ['-2**63 <= n < 2**63'] + TP, LEAF_INT % {'tl': tl},
                      PRE, 120, family='leaf', bound='all 64-bit signed integers', rep={'n': -1, 't': trep}))
    parts.append(Part('leaf_bool_none', [('b', 'bool')] + T, TP, LEAF_BOOL % {'tl': tl}, PRE, 60,
                      family='leaf', bound='both booleans, None', rep={'b': False, 't': trep}))
    parts.append(Part('leaf_float', [('bits', 'int')] + T, ['0 <= bits < 2**64'] + TP,
                      LEAF_FLOAT % {'tl': tl}, PRE, 300, per_path=120, family='leaf',
                      bound='all 2^64 binary64 bit patterns (NaN, infinities, subnormals, both zeros)',
                      rep={'bits': 0x400921FB54442D18, 't': trep}))
    for n in ((0, 1, 2) if q else (0, 1, 2, 3)):
        parts.append(Part('leaf_str_%d' % n, [('s', 'str')] + T, ['len(s) == %d' % n] + TP,
                          LEAF_STR % {'tl': tl}, PRE, 200 if q else 480, family='leaf',
                          bound='all strings of %d code points' % n,
                          rep={'s': 'é€😀'[:n], 't': trep}))
    for n in (range(0, 5) if q else range(0, 9)):
        parts.append(Part('leaf_bytearray_%d' % n, [('ba', 'bytes')] + T, ['len(ba) == %d' % n] + TP,
                          LEAF_BA % {'tl': tl}, PRE, 120, family='leaf',
                          bound='all bytearrays of length %d' % n,
                          rep={'ba': {'__bytes__': 'ce00ff41ce00ff41'[:2 * n]}, 't': trep}))
    top = 20 if q else 999
    for exp in range(-9, 4):
        parts.append(Part('leaf_decimal_e%s' % (str(exp).replace('-', 'm')),
                          [('neg', 'bool'), ('coef', 'int')] + T, ['0 <= coef <= %d' % top] + TP,
                          LEAF_DEC % {'tl': tl, 'exp': exp}, PRE, 300 if q else 480, family='leaf_decimal',
                          bound='sign x coefficient 0..%d x exponent %d (enumerated by realization)' % (top, exp),
                          rep={'neg': True, 'coef': 15, 't': trep}))
    for i, lit in enumerate(['2147483647', '2147483648', '21474836.47', '1E-255', '1E-256', '0.0000001',
                             '1.5', '10', '0.10', '1E+2', '123456.789', '1.10', '250.00', '0.00']):
        body = LEAF_DEC_STR % {'tl': tl, 'lit': lit}
        if lit in ('2147483648', '1E-256'):
            body = body.replace('    ok, got = rt(d, t, %d)' % tl,
                                '    try:\n        ok, got = rt(d, t, %d)\n    except (struct.error, '
                                'TypeError, ValueError, OverflowError):\n        return hx.rejected()' % tl)
        parts.append(Part('leaf_decimal_lit%d' % i, [('neg', 'bool')] + T, TP, body, PRE, 60,
                          family='leaf_decimal', bound='Decimal(%r), both signs' % lit,
                          rep={'neg': True, 't': trep}))
    for kind, label in ((0, 'naive'), (1, 'utc'), (2, 'offset')):
        parts.append(Part('leaf_datetime_' + label,
                          [('wall', 'int'), ('us', 'int'), ('off', 'int'), ('o1', 'int'), ('o2', 'int')] + T,
                          ['-50400 <= wall < 2**32 + 50400', '0 <= us < 1000000', '-50400 <= off <= 50400',
                           '-50400 <= o1 <= 50400', '-50400 <= o2 <= 50400'] + TP,
                          LEAF_DT % {'tl': tl, 'kind': kind}, PRE, 200, family='leaf_datetime',
                          bound='%s datetime, instants 0..2^32-1, all microseconds, offsets +-14h, '
                                'symbolic local-time environment' % label,
                          rep={'wall': 1700000000, 'us': 999999, 'off': -12600, 'o1': 3600, 'o2': 0, 't': trep},
                          tz_replay=True))
    parts.append(Part('leaf_struct_time', [('o1', 'int')] + T, ['-50400 <= o1 <= 50400'] + TP,
                      LEAF_ST % {'tl': tl}, PRE, 120, family='leaf_datetime',
                      bound='10 concrete struct_time instants, symbolic local-time environment',
                      rep={'o1': 7200, 't': trep}, tz_replay=True))
    tpls = dict(TEMPLATES)
    if not q:
        tpls.update(TEMPLATES_THOROUGH)
    import itertools
    for name, (expr, nleaf, nkey) in tpls.items():
        if nleaf < 2:
            parts.append(_tpl_part(name, expr, nleaf, nkey, tl, 280 if q else 480, narrow=q and nkey >= 2))
            continue
        for sels in itertools.product(range(4), repeat=nleaf):
            p = _tpl_part(name, expr, nleaf, nkey, tl, 280 if q else 480, narrow=q)
            p.name += '_' + ''.join(str(x) for x in sels)
            for j, sv in enumerate(sels):
                p.pre = [c for c in p.pre if c != '0 <= sel%d <= 3' % j] + ['sel%d == %d' % (j, sv)]
                p.rep['sel%d' % j] = sv
            p.bound += '; leaf kinds fixed to %s' % (sels,)
            parts.append(p)
    # key length boundaries (keys <= 128 characters and <= 255 UTF-8 bytes are inside the property):
    # concrete keys X*n, one code point X per UTF-8 length class, value symbolic
    samples = [('a', 1), ('a', 127), ('a', 128), ('\u00e9', 64), ('\u00e9', 65), ('\u00e9', 127),
               ('\u20ac', 42), ('\u20ac', 43), ('\u20ac', 85), ('\U0001f600', 32), ('\U0001f600', 33),
               ('\U0001f600', 63)]
    for i, (c, n) in enumerate(samples):
        parts.append(Part('key_len_%d' % i, [('v', 'int')] + T, ['-2**63 <= v < 2**63'] + TP,
                          'def body(v, t):\n'
                          '    key = %r * %d\n'
                          '    tbl = hx.table([(key, v), ("z" + key[1:], [v])])\n'
                          '    enc = hx.fix(encode.field_table(tbl))\n'
                          '    c, got = decode.field_table(enc + hx.buf(hx.blist(t, %d)))\n'
                          '    return c == len(enc) and eqv(got, tbl)\n' % (c, n, tl),
                          PRE, 120, family='key_length',
                          bound='table keys %r*%d (%d UTF-8 bytes) and a sibling sharing all but the first '
                                'character; value any 64-bit integer' % (c, n, n * len(c.encode('utf-8'))),
                          rep={'v': 5, 't': trep}))
    parts.append(Part('leaf_str_samples', [('n', 'int')] + T, ['-2**15 <= n < 2**15'] + TP,
                      'def body(n, t):\n'
                      '    ok = True\n'
                      '    for s in ("\\ufeffabc", "\\ufeff", "a\\ufeff", "\\ufffe", "\\x00", "a\\x00b", "\\U0001f600\\U0010ffff",\n'
                      '              "e\\u0301", "\\u2028", " ", "\\uffff", "\\x7f\\x80", "\\\\", "%%s", "{}"):\n'
                      '        for v in (s, [s, n], hx.table([(s, s)])):\n'
                      '            c, got = rt(v, t, %d)\n'
                      '            ok = ok and c and eqv(got, v)\n'
                      '    return ok\n' % tl,
                      PRE, 200, family='leaf',
                      bound='15 concrete strings (byte-order mark first / alone / last, U+FFFE, NUL, astral pairs, '
                            'combining marks, line separator, format-looking text) as value, in a list and as key',
                      rep={'n': 3, 't': trep}))
    parts.append(Part('twin_leaf_int', [('n', 'int')] + T, ['-2**63 <= n < 2**63'] + TP,
                      (LEAF_INT % {'tl': tl}).replace('return ok and', 'return not ok or not'),
                      PRE, 60, expect='refuted', family='leaf', bound='vacuity twin'))
    return parts
