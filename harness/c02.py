"""C02 - content header and Basic.Properties survive encode-then-decode."""
from engine.part import Part
from harness import common
from harness.common import spec

META = {
    'level': 'model_checking',
    'claim': 'Content-header frames are round-tripped symbolically through the real marshal/unmarshal: '
             'presence patterns are symbolic booleans (each path covers one pattern for all body sizes '
             'and channels), and each property is exercised alone and next to its neighbours with a '
             'symbolic value of its full type range. Decoded frames must carry exactly the set '
             'properties with equal values and types, class id 60, the same body size, and re-encode to '
             'the original bytes; the flag word is also compared with the independent reference codec.',
    'trusted': 'CrossHair + z3; symrt struct/CBytes/bitwise/SymDT models; spec/refcodec.py.',
    'bounds': {
        'quick': 'presence: two overlapping windows of 7 of the 13 settable properties, each with the '
                 'remaining properties all absent and all present (4 x 128 patterns), representative '
                 'values incl. priority 0 and headers {}; the same after an earlier decode of a header '
                 'with every property set (2 x 32 patterns); body size 0..2^64-1, channel 0..65535; values: '
                 'each property alone with a symbolic value (octet 0..255, delivery_mode any integer, '
                 'short strings <= 1 code point, headers {k: n}, timestamp any instant 0..2^32-1 with '
                 'any microsecond)',
        'thorough': 'all 8192 presence patterns (64 partitions); short strings <= 3 code points; '
                    'property pairs',
    },
    'outside': 'short strings longer than the bound (255-byte boundary is sampled as X*n in C01); header '
               'tables beyond one entry (C03)',
    'cuts': ['exception message formatting'],
}

NAMES = [n for n, _ in spec.PROPERTIES if n != 'cluster_id']
REPS = {
    'content_type': "'text/plain'", 'content_encoding': "'gzip'", 'headers': "hx.table([('k', 1)])",
    'delivery_mode': '2', 'priority': '0', 'correlation_id': "'c'", 'reply_to': "'r'",
    'expiration': "'10'", 'message_id': "'m'", 'timestamp': 'hx.dt(1700000000, 0, 0)',
    'message_type': "'t'", 'user_id': "'u'", 'app_id': "'a'",
}

PRE = common.PRELUDE + '''
NAMES = %r


def props_equal(p, want):
    """exactly the set properties carry equal values of the same type; the others are None"""
    ok = type(p) is commands.Basic.Properties and p.cluster_id == ''
    for n in NAMES:
        got, w = getattr(p, n), want[n]
        if w is None or (isinstance(w, str) and len(w) == 0):
            ok = ok and got is None
        elif n == 'timestamp':
            a, b = hx.dt_parts(got), hx.dt_parts(w)
            ok = ok and a is not None and a[0] is True and a[3] == 0 and a[1] == b[1] and a[2] == 0
        elif n == 'headers':
            ok = ok and isinstance(got, dict) and len(got) == len(w)
            for k in w:
                ok = ok and k in got and got[k] == w[k] and type(got[k]) is type(w[k])
        else:
            ok = ok and got == w and type(got) is type(w)
    return ok


def roundtrip(ch, size, want):
    p = commands.Basic.Properties(**want)
    data = hx.fix(frame.marshal(header.ContentHeader(0, size, p), ch))
    refp = dict(want)
    if not ref.equal(data, ref.content_header_frame(ch, size, spec.PROPERTIES, refp,
                                                     epoch_of=lambda d: hx.dt_parts(d)[1], single_bits=hx.single_bits)):
        return False
    n, chan, f = frame.unmarshal(data)
    t, pc, sz = frame.frame_parts(data)
    ok = (n == len(data) and chan == ch and type(f) is header.ContentHeader and f.body_size == size
          and type(f.body_size) is int and f.class_id == 60 and f.weight == 0
          and t == 2 and pc == ch and sz + 8 == len(data))
    ok = ok and props_equal(f.properties, want)
    again = frame.marshal(f, ch)
    return ok and list(again) == list(data)
''' % (NAMES,)


def _presence_part(name, window, others_present, timeout, history=False):
    params = [('ch', 'int'), ('size', 'int')] + [('p_' + n, 'bool') for n in window]
    lines = ['def body(%s):' % ', '.join(p for p, _ in params), '    want = {}']
    if history:
        # an earlier header frame with every property set was decoded by this process: what the next
        # decode returns must depend on its own bytes only (sixth seeded round, H02_1 / H06_1)
        lines.append('    full = {%s}' % ', '.join('%r: %s' % (n, REPS[n]) for n in NAMES))
        lines.append('    earlier = frame.unmarshal(hx.fix(frame.marshal(header.ContentHeader(0, 7, '
                     'commands.Basic.Properties(**full)), 1)))')
        lines.append('    if not props_equal(earlier[2].properties, full):')
        lines.append('        return False')
    for n in NAMES:
        if n in window:
            lines.append('    want[%r] = %s if p_%s else None' % (n, REPS[n], n))
        else:
            lines.append('    want[%r] = %s' % (n, REPS[n] if others_present else 'None'))
    lines.append('    return roundtrip(ch, size, want)')
    rep = {'ch': 3, 'size': 2 ** 63}
    rep.update({'p_' + n: (i % 2 == 0) for i, n in enumerate(window)})
    return Part(name=name, params=params, pre=['0 <= ch <= 65535', '0 <= size < 2**64'],
                body='\n'.join(lines), prelude=PRE, timeout=timeout, family='presence',
                bound='presence of %s symbolic, other properties %s; body size and channel symbolic%s'
                      % (', '.join(window), 'present' if others_present else 'absent',
                         '; after an earlier decode of a header with every property set' if history else ''),
                rep=rep)


def _value_part(prop, wtype, strlen, timeout, neighbours=False):
    params = [('ch', 'int'), ('size', 'int')]
    pre = ['0 <= ch <= 65535', '0 <= size < 2**64']
    rep = {'ch': 1, 'size': 0}
    if wtype == 'octet':
        params.append(('v', 'int'))
        if prop == 'delivery_mode':
            pre.append('-2**70 <= v <= 2**70')
            val, rep['v'] = 'v', 1
        else:
            pre.append('0 <= v <= 255')
            val, rep['v'] = 'v', 0
    elif wtype == 'shortstr':
        params.append(('v', 'str'))
        pre.append('len(v) <= %d' % strlen)
        val, rep['v'] = 'v', 'é'
    elif wtype == 'table':
        params += [('k', 'str'), ('v', 'int'), ('empty', 'bool')]
        pre += ['len(k) <= 1', '-2**63 <= v < 2**63']
        val = 'hx.table([]) if empty else hx.table([(k, v)])'
        rep.update({'k': 'x', 'v': -1, 'empty': False})
    else:
        params += [('v', 'int'), ('us', 'int'), ('off', 'int')]
        pre += ['0 <= v - off < 2**32', '0 <= us < 1000000', '-50400 <= off <= 50400']
        val = 'hx.dt(v, us, off)'
        rep.update({'v': 4294967295, 'us': 999999, 'off': 0})
    lines = ['def body(%s):' % ', '.join(p for p, _ in params),
             '    want = {n: None for n in NAMES}']
    if neighbours:
        i = NAMES.index(prop)
        for j in (i - 1, i + 1):
            if 0 <= j < len(NAMES):
                lines.append('    want[%r] = %s' % (NAMES[j], REPS[NAMES[j]]))
    lines.append('    want[%r] = %s' % (prop, val))
    if prop == 'delivery_mode':
        lines += ['    try:',
                  '        return roundtrip(ch, size, want) and (v == 1 or v == 2)',
                  '    except ValueError:',
                  '        return hx.rejected() if not (v == 1 or v == 2) else False']
    elif wtype == 'shortstr':
        lines += ['    return roundtrip(ch, size, want)']
    else:
        lines.append('    return roundtrip(ch, size, want)')
    return Part(name='val_%s%s' % (prop, '_nb' if neighbours else ''), params=params, pre=pre,
                body='\n'.join(lines), prelude=PRE, timeout=timeout, family='property_value',
                bound='%s symbolic over its full type range%s' % (prop, ' with both neighbours set' if neighbours else ''),
                rep=rep, tz_replay=(wtype == 'timestamp'))


def partitions(tier, seed):
    q = tier == 'quick'
    parts = []
    if q:
        wa, wb = NAMES[0:7], NAMES[6:13]
        for nm, w in (('a', wa), ('b', wb)):
            parts.append(_presence_part('presence_%s_rest_absent' % nm, w, False, 250))
            parts.append(_presence_part('presence_%s_rest_present' % nm, w, True, 250))
        parts.append(_presence_part('presence_a_after_full_header', wa[0:5], False, 250, history=True))
        parts.append(_presence_part('presence_b_after_full_header', wb[2:7], False, 250, history=True))
    else:
        # all 8192 patterns: 6 fixed bits per partition (64 partitions) x 7 symbolic bits
        import itertools
        fixed_names, sym_names = NAMES[0:6], NAMES[6:13]
        for bits in itertools.product((False, True), repeat=6):
            p = _presence_part('presence_' + ''.join('1' if b else '0' for b in bits), sym_names, False, 480)
            # pin the fixed ones
            body = p.body
            for n, b in zip(fixed_names, bits):
                body = body.replace('    want[%r] = None' % n, '    want[%r] = %s' % (n, REPS[n] if b else 'None'))
            p.body = body
            p.bound = 'presence pattern %s for %s, remaining 7 symbolic' % (bits, fixed_names)
            parts.append(p)
        parts.append(_presence_part('presence_a_after_full_header', NAMES[0:7], False, 480, history=True))
        parts.append(_presence_part('presence_b_after_full_header', NAMES[6:13], False, 480, history=True))
    for prop, wtype in spec.PROPERTIES:
        if prop == 'cluster_id':
            continue
        parts.append(_value_part(prop, wtype, 1 if q else 3, 200 if q else 480))
        if not q or prop in ('headers', 'priority', 'timestamp', 'delivery_mode'):
            parts.append(_value_part(prop, wtype, 1 if q else 2, 200 if q else 480, neighbours=True))
    parts.append(Part(name='headers_decimal_and_long_key', params=[('ch', 'int'), ('size', 'int'), ('n', 'int')],
                      pre=['0 <= ch <= 65535', '0 <= size < 2**64', '-2**31 <= n < 2**31'],
                      body='def body(ch, size, n):\n'
                           '    ok = True\n'
                           '    for lit in ("1.10", "250.00", "0.00", "-7.50", "3.14159"):\n'
                           '        want = {k: None for k in NAMES}\n'
                           '        want["headers"] = hx.table([("d", decimal.Decimal(lit)), ("n", n)])\n'
                           '        ok = ok and roundtrip(ch, size, want)\n'
                           '    want = {k: None for k in NAMES}\n'
                           '    want["headers"] = hx.table([("amount", decimal.Decimal("2")), ("factor", 2.0),\n'
                           '                                ("g", decimal.Decimal("0.125")), ("h", 0.125), ("i", 1), ("j", True)])\n'
                           '    ok = ok and roundtrip(ch, size, want)\n'
                           '    for key in ("\\u00e9" * 65, "\\u20ac" * 85, "a" * 128):\n'
                           '        want = {k: None for k in NAMES}\n'
                           '        want["headers"] = hx.table([(key, n), ("z" + key[1:], True)])\n'
                           '        ok = ok and roundtrip(ch, size, want)\n'
                           '    return ok\n',
                      prelude=PRE, timeout=200, family='property_value',
                      bound='headers with Decimals that have trailing zeros (re-encoding must reproduce the '
                            'bytes) and with field names of <= 128 characters but up to 255 UTF-8 bytes',
                      rep={'ch': 1, 'size': 3, 'n': 7}))
    parts.append(Part(name='empty_and_falsy', params=[('ch', 'int'), ('size', 'int')],
                      pre=['0 <= ch <= 65535', '0 <= size < 2**64'],
                      body='def body(ch, size):\n'
                           '    want = {n: None for n in NAMES}\n'
                           '    ok = roundtrip(ch, size, want)\n'
                           '    want["priority"] = 0\n'
                           '    want["headers"] = hx.table([])\n'
                           '    want["content_type"] = ""\n'
                           '    return ok and roundtrip(ch, size, want)\n',
                      prelude=PRE, timeout=100, family='presence',
                      bound='no property; priority 0 + headers {} + empty content type', rep={'ch': 0, 'size': 1}))
    parts.append(Part(name='twin_presence', params=[('ch', 'int'), ('size', 'int')],
                      pre=['0 <= ch <= 65535', '0 <= size < 2**64'],
                      body='def body(ch, size):\n    want = {n: None for n in NAMES}\n    want["priority"] = 9\n'
                           '    return not roundtrip(ch, size, want)\n',
                      prelude=PRE, timeout=60, expect='refuted', family='presence', bound='vacuity twin'))
    return parts
