"""C05 - decoder accepts every well-formed wire frame a peer may send."""
from engine.part import Part
from harness import common
from harness.common import spec

META = {
    'level': 'model_checking',
    'claim': 'Wire forms are GENERATED from abstract values by harness code that follows the AMQP grammar '
             '(not by pamqp\'s encoder), with the wire octets themselves symbolic: every one of the 19 '
             'documented type tags over its full value range, non-minimal integer widths, tables with keys in '
             'arbitrary (unsorted) order, property flag words with the unused bit and with a continuation '
             'word, long strings that are not UTF-8, and method arguments the send-side validators refuse '
             '(any ticket, any name characters, any deprecated-field value). Decoding must succeed, consume '
             'exactly the frame, and yield the abstract value the generator started from (no validation on '
             'receive); millisecond timestamps denote the ms instant and unrepresentable ones are refused.',
    'trusted': 'the grammar-following generators in this file; CrossHair + z3; symrt models (struct, float, '
               'CBytes, SymDT + exact int/1000.0 model).',
    'bounds': {
        'quick': 'each tag with all value octets symbolic (+2 arbitrary trailing octets); tag T all 2^64 values; '
                 'tag D: 13 scales x 6 unscaled values (concrete); S/x payloads <= 2 octets, S also 2 arbitrary '
                 '(possibly invalid UTF-8) octets; arrays/tables of two entries with symbolic tags from {b,B,s,u,I,i,t,V} '
                 'and keys (1 octet each, any order); all 64 methods with every integer octet symbolic, strings '
                 '<= 1 code point (any code point, validators not consulted), table argument {} or one non-minimal '
                 'entry; content headers with unused flag bit / continuation word / delivery-mode 0..255',
        'thorough': 'strings <= 2 code points; three-entry containers',
    },
    'outside': 'binary64 rounding of ts/1000.0 for millisecond timestamps (<= 32 us at year 9999); tag L at or '
               'above 2^63 (signed and unsigned readings differ, excluded by the property); nesting deeper than 2',
    'cuts': ['exception message formatting'],
}

PRE = common.PRELUDE + '''
def be(v, w):
    return [(v >> (8 * (w - 1 - i))) & 255 for i in range(w)]


def uval(bs):
    v = 0
    for b in bs:
        v = v * 256 + b
    return v


def sval(bs):
    v = uval(bs)
    if bs[0] >= 128:
        v = v - 256 ** len(bs)
    return v


def envelope(ftype, ch, payload):
    n = len(payload)
    return hx.buf([ftype, ch // 256, ch % 256] + be(n, 4) + list(payload) + [0xCE])


def dec(wire, t, n):
    """decode one field value followed by n arbitrary trailing octets -> (consumed == len(wire), value)"""
    c, v = decode.embedded_value(hx.buf(list(wire) + hx.blist(t, n)))
    return c == len(wire), v
'''

INT_TAGS = [('b', 1, True), ('B', 1, False), ('s', 2, True), ('u', 2, False), ('I', 4, True), ('i', 4, False),
            ('l', 8, True), ('L', 8, True)]

T_INT = '''
def body(v, t):
    bs = hx.blist(v, %(w)d)
    if %(tagL)s and bs[0] >= 128:
        return hx.rejected()          # tag L at or above 2^63 is outside the property
    ok, got = dec([%(tag)d] + bs, t, 2)
    want = sval(bs) if %(signed)s else uval(bs)
    return ok and type(got) is int and got == want
'''

T_BOOL = '''
def body(b, t):
    ok, got = dec([ord('t'), b], t, 2)
    ok2, g2 = dec([ord('V')], t, 2)
    ok3, g3 = dec([0], t, 2)
    return ok and type(got) is bool and got == (b != 0) and ok2 and g2 is None and ok3 and g3 is None
'''

T_FLOAT = '''
def body(v, t):
    bs = hx.blist(v, %(w)d)
    ok, got = dec([%(tag)d] + bs, t, 2)
    if not ok or type(got) is not float:
        return False
    want = hx.float_from_octets(bs, %(w)d)       # big-endian IEEE-754 reading of the octets
    if hx.isnan(want):
        return hx.isnan(got)
    return got == want and hx.same_sign(got, want)
'''

T_DEC = '''
def body(t):
    ok = True
    for raw in (0, 1, -1, 314159, 2147483647, -2147483648):
        for scale in (0, 1, 2, 5, 9, 10, 27, 28, 29, 127, 128, 254, 255):
            c, got = dec([ord('D'), scale] + be(raw % 2**32, 4), t, 2)
            want = decimal.Decimal(raw).scaleb(-scale)
            ok = ok and c and type(got) is decimal.Decimal and got == want
    return ok
'''

T_STR = '''
def body(s, raw, t):
    u = ref.utf8(s)
    ok, got = dec([ord('S')] + be(len(u), 4) + u, t, 2)
    ok = ok and type(got) is str and got == s
    # two arbitrary octets: text when they are valid UTF-8, otherwise returned as the raw bytes
    r = hx.blist(raw, 2)
    ok2, g2 = dec([ord('S')] + be(2, 4) + r, t, 2)
    if r[0] < 128 and r[1] < 128:
        ok = ok and type(g2) is str and len(g2) == 2 and ord(g2[0]) == r[0] and ord(g2[1]) == r[1]
    elif 0xC2 <= r[0] <= 0xDF and 0x80 <= r[1] <= 0xBF:
        ok = ok and type(g2) is str and len(g2) == 1 and ord(g2[0]) == (r[0] - 0xC0) * 64 + (r[1] - 0x80)
    else:
        ok = ok and isinstance(g2, bytes) and len(g2) == 2 and g2[0] == r[0] and g2[1] == r[1]
    ok3, g3 = dec([ord('x')] + be(2, 4) + r, t, 2)
    ok = ok and ok2 and ok3 and type(g3) is bytearray and len(g3) == 2 and g3[0] == r[0] and g3[1] == r[1]
    ok4, g4 = dec([ord('x'), 0, 0, 0, 0], t, 2)
    return ok and ok4 and type(g4) is bytearray and len(g4) == 0
'''

T_TS = '''
def body(v, t):
    bs = hx.blist(v, 8)
    n = uval(bs)
    try:
        ok, got = dec([ord('T')] + bs, t, 2)
    except ValueError:
        # refused: only allowed when the instant is not representable (after year 9999)
        return (n > 0xFFFFFFFF and n >= 253402300800000)
    p = hx.dt_parts(got)
    if not ok or p is None or p[0] is not True or p[3] != 0:
        return False
    if n <= 0xFFFFFFFF:
        return p[1] == n and p[2] == 0
    return n < 253402300800000 and p[1] == n // 1000 and p[2] == (n % 1000) * 1000
'''

# containers: two entries with symbolic tag choice among small scalar tags
SCALAR = '''
def scalar(sel, a, b):
    """-> (wire octets, abstract value) for a small scalar with tag chosen by sel"""
    if sel == 0:
        return [ord('b'), a], (a - 256 if a >= 128 else a)
    if sel == 1:
        return [ord('B'), a], a
    if sel == 2:
        return [ord('s'), a, b], sval([a, b])
    if sel == 3:
        return [ord('u'), a, b], a * 256 + b
    if sel == 4:
        return [ord('I'), 0, 0, a, b], a * 256 + b          # non-minimal width
    if sel == 5:
        return [ord('i'), 0, 0, a, b], a * 256 + b
    if sel == 6:
        return [ord('t'), a], a != 0
    if sel == 7:
        return [ord('l'), 255, 255, 255, 255, 255, 255, 255, a], a - 256   # non-minimal negative
    return [ord('V')], None


def same(got, want):
    if want is None:
        return got is None
    return got == want and type(got) is type(want)
'''

T_ARRAY = '''
def body(s0, s1, a0, b0, a1, b1, t):
    w0, v0 = scalar(s0, a0, b0)
    w1, v1 = scalar(s1, a1, b1)
    inner = w0 + [ord('A')] + be(len(w1), 4) + w1
    ok, got = dec([ord('A')] + be(len(inner), 4) + inner, t, 2)
    return (ok and type(got) is list and len(got) == 2 and same(got[0], v0)
            and type(got[1]) is list and len(got[1]) == 1 and same(got[1][0], v1))
'''

T_TABLE = '''
def body(s0, s1, a0, b0, a1, b1, k0, k1, t):
    w0, v0 = scalar(s0, a0, b0)
    w1, v1 = scalar(s1, a1, b1)
    nested = [1, k1] + w1
    inner = [1, k0] + w0 + [1, k1, ord('F')] + be(len(nested), 4) + nested     # keys in arbitrary order
    wire = [ord('F')] + be(len(inner), 4) + inner
    ok, got = dec(wire, t, 2)
    if not ok or not isinstance(got, dict) or len(got) != 2:
        return False
    c0, c1 = chr(k0), chr(k1)
    n = got[c1]
    ok = same(got[c0], v0) and isinstance(n, dict) and len(n) == 1 and same(n[c1], v1)
    c2, g2 = decode.field_table(hx.buf(wire[1:] + hx.blist(t, 2)))
    return ok and c2 == len(wire) - 1 and len(g2) == 2
'''

HEADER = '''
def body(ch, size, dm, prio, unused, ct):
    u = ref.utf8(ct)
    flags = 0x8000 + 0x1000 + 0x0800 + (2 if unused else 0)
    props = [len(u)] + u + [dm, prio]
    base_ = [0, 60, 0, 0] + hx.blist(size, 8)
    want_size = uval(hx.blist(size, 8))
    ok = True
    for fl in ([flags // 256, flags % 256], [flags // 256, flags % 256 + 1, 0, 0]):
        d = envelope(2, ch, base_ + fl + props)
        n, c, f = frame.unmarshal(d)
        p = f.properties
        ok = ok and n == len(d) and c == ch and type(f) is header.ContentHeader and f.body_size == want_size
        ok = ok and p.content_type == ct and p.delivery_mode == dm and p.priority == prio
        ok = ok and p.headers is None and p.timestamp is None and p.app_id is None and p.cluster_id == ""
    return ok
'''


def _method_part(m, strlen, timeout, variant=''):
    """wire form of a method frame generated from symbolic octets; no validator is consulted"""
    params, pre, wire, checks, rep = [], [], [], [], {}
    nbytes = 0
    bits = []

    def flush():
        nonlocal bits
        if bits:
            wire.append('[%s]' % ' + '.join('%s * %d' % (b, 1 << i) for i, b in enumerate(bits)))
            bits = []

    for (name, wtype, default) in m['args']:
        if wtype == 'bit':
            v = 'f_' + name
            params.append((v, 'bool'))
            bits.append(v)
            checks.append('f.%s == %s and type(f.%s) is bool' % (name, v, name))
            rep[v] = True
            continue
        flush()
        if wtype in ('octet', 'short', 'long', 'longlong'):
            w = {'octet': 1, 'short': 2, 'long': 4, 'longlong': 8}[wtype]
            seg = 'raw[%d:%d]' % (nbytes, nbytes + w)
            nbytes += w
            wire.append(seg)
            fn = 'sval' if wtype == 'longlong' else 'uval'
            checks.append('f.%s == %s(%s) and type(f.%s) is int' % (name, fn, seg, name))
        elif wtype in ('shortstr', 'longstr') and variant == 'b':
            lenw = 1 if wtype == 'shortstr' else 4
            wire.append('%r' % ([0] * (lenw - 1) + [1, 42],))
            checks.append('f.%s == "*"' % name)
        elif wtype in ('shortstr', 'longstr'):
            v = 's_' + name
            params.append((v, 'str'))
            pre.append('len(%s) <= %d' % (v, strlen))
            lenw = 1 if wtype == 'shortstr' else 4
            wire.append('be(len(ref.utf8(%s)), %d) + ref.utf8(%s)' % (v, lenw, v))
            checks.append('f.%s == %s and type(f.%s) is str' % (name, v, name))
            rep[v] = '*'
        elif wtype == 'table' and variant == 'a':
            wire.append('[0, 0, 0, 0]')
            checks.append('isinstance(f.%s, dict) and len(f.%s) == 0' % (name, name))
        elif wtype == 'table':
            params += [('tk', 'bool'), ('ta', 'int')]
            pre += ['0 <= ta <= 255']
            wire.append('(be(10, 4) + [1, 107, ord("I"), 0, 0, 0, ta, 1, 106, ord("V")] if tk else [0, 0, 0, 0])')
            checks.append('isinstance(f.%s, dict) and (len(f.%s) == 2 and f.%s["k"] == ta and f.%s["j"] is None '
                          'if tk else len(f.%s) == 0)' % (name, name, name, name, name))
            rep.update({'tk': True, 'ta': 5})
    flush()
    params = [('ch', 'int'), ('raw', 'bytes')] + params
    pre = ['0 <= ch <= 65535', 'len(raw) == %d' % nbytes] + pre
    cls = common.cls_expr(m['name'])
    lines = ['def body(%s):' % ', '.join(p for p, _ in params),
             '    raw = hx.blist(raw, %d)' % nbytes,
             '    payload = be(%d, 4)%s' % (m['index'], ''.join(' + ' + w for w in wire)),
             '    d = envelope(1, ch, payload)',
             '    n, c, f = frame.unmarshal(d)',
             '    ok = n == len(d) and c == ch and type(f) is %s' % cls]
    lines += ['    ok = ok and %s' % c for c in checks]
    lines.append('    return ok')
    rep.update({'ch': 9, 'raw': {'__bytes__': 'ff' * nbytes}})
    return Part(name='wire_' + common.safe(m['name']) + ('_' + variant if variant else ''), params=params, pre=pre, body='\n'.join(lines),
                prelude=PRE, timeout=timeout, family='wire_method',
                bound='%s: %d symbolic integer octets, strings <= %d code points (no validation), table {} or '
                      '{k: I-tagged small int, j: void}' % (m['name'], nbytes, strlen),
                rep=rep)


def partitions(tier, seed):
    q = tier == 'quick'
    parts = []
    T = [('t', 'bytes')]
    TP = ['len(t) == 2']
    trep = {'__bytes__': 'ce00'}
    for tag, w, signed in INT_TAGS:
        parts.append(Part('tag_%s' % ('L_upper' if tag == 'L' else tag + ('_' if tag.isupper() else '')),
                          [('v', 'bytes')] + T, ['len(v) == %d' % w] + TP,
                          T_INT % {'w': w, 'tag': ord(tag), 'signed': signed, 'tagL': tag == 'L'},
                          PRE, 120, family='tag_value', bound='tag %r: all %d-octet values' % (tag, w),
                          rep={'v': {'__bytes__': 'ff' * w if tag != 'L' else '7f' + 'ff' * 7}, 't': trep}))
    parts.append(Part('tag_t_V_nul', [('b', 'int')] + T, ['0 <= b <= 255'] + TP, T_BOOL, PRE, 60,
                      family='tag_value', bound='tag t: all octets; V; 0x00', rep={'b': 2, 't': trep}))
    for tag, w in (('f', 4), ('d', 8)):
        parts.append(Part('tag_%s_float' % tag, [('v', 'bytes')] + T, ['len(v) == %d' % w] + TP,
                          T_FLOAT.replace('%%', '%') % {'w': w, 'tag': ord(tag)} if False else
                          (T_FLOAT % {'w': w, 'tag': ord(tag)}),
                          PRE, 300, per_path=120, family='tag_value',
                          bound='tag %r: all %d-octet patterns' % (tag, w),
                          rep={'v': {'__bytes__': '3fc00000' if w == 4 else '3ff8000000000000'}, 't': trep}))
    parts.append(Part('tag_D', T, TP, T_DEC, PRE, 200, family='tag_value',
                      bound='tag D: 13 scales x 6 unscaled values incl. the 32-bit extremes (concrete), arbitrary '
                            'trailing octets', rep={'t': trep}))
    parts.append(Part('tag_S_x', [('s', 'str'), ('raw', 'bytes')] + T,
                      ['len(s) <= %d' % (1 if q else 2), 'len(raw) == 2'] + TP, T_STR, PRE, 280 if q else 480,
                      family='tag_value', bound='tags S and x: text, 2 arbitrary octets (valid or invalid UTF-8)',
                      rep={'s': 'é', 'raw': {'__bytes__': 'ff41'}, 't': trep}))
    parts.append(Part('tag_T', [('v', 'bytes')] + T, ['len(v) == 8'] + TP, T_TS, PRE, 200, family='tag_value',
                      bound='tag T: all 2^64 values (seconds up to 2^32-1, milliseconds above, refused after year 9999)',
                      rep={'v': {'__bytes__': '00000191e1f2a3b4'}, 't': trep}))
    cparams = [('s0', 'int'), ('s1', 'int'), ('a0', 'int'), ('b0', 'int'), ('a1', 'int'), ('b1', 'int')]
    cpre = ['0 <= s0 <= 8', '0 <= s1 <= 8', '0 <= a0 <= 255', '0 <= b0 <= 255', '0 <= a1 <= 255', '0 <= b1 <= 255']
    crep = {'s0': 4, 's1': 7, 'a0': 200, 'b0': 1, 'a1': 130, 'b1': 0, 't': trep}
    parts.append(Part('tag_A', cparams + T, cpre + TP, T_ARRAY, PRE + SCALAR, 250, family='tag_container',
                      bound='array [scalar, [scalar]] with symbolic scalar tags (incl. non-minimal widths)', rep=crep))
    parts.append(Part('tag_F', cparams + [('k0', 'int'), ('k1', 'int')] + T,
                      cpre + ['0 <= k0 <= 127', '0 <= k1 <= 127', 'k0 != k1'] + TP, T_TABLE, PRE + SCALAR, 280,
                      family='tag_container',
                      bound='table {k0: scalar, k1: {k1: scalar}} with keys in arbitrary order', rep=dict(crep, k0=122, k1=97)))
    parts.append(Part('header_flags', [('ch', 'int'), ('size', 'bytes'), ('dm', 'int'), ('prio', 'int'),
                                       ('unused', 'bool'), ('ct', 'str')],
                      ['0 <= ch <= 65535', 'len(size) == 8', '0 <= dm <= 255', '0 <= prio <= 255', 'len(ct) <= 1'],
                      HEADER, PRE, 250, family='wire_header',
                      bound='content header: any body size, delivery-mode 0..255 (not validated), unused flag bit, '
                            'single and continued flag words', rep={'ch': 1, 'size': {'__bytes__': 'ff' * 8}, 'dm': 3,
                                                                     'prio': 0, 'unused': True, 'ct': 'x'}))
    parts.append(Part('decode_again_after_mutation', [('ch', 'int'), ('a', 'int'), ('b', 'int')],
                      ['0 <= ch <= 65535', '0 <= a <= 255', '0 <= b <= 255'],
                      'def body(ch, a, b):\n'
                      '    # the value a decode yields is what is on the wire, whatever an earlier caller did to an\n'
                      '    # earlier result: {k: [a, {j: b}], x: bytearray([a])}\n'
                      '    inner = [1, 106, ord("B"), b]\n'
                      '    arr = [ord("B"), a, ord("F")] + be(len(inner), 4) + inner\n'
                      '    tbl = [1, 107, ord("A")] + be(len(arr), 4) + arr + [1, 120, ord("x"), 0, 0, 0, 1, a]\n'
                      '    wire_t = be(len(tbl), 4) + tbl\n'
                      '    d1 = envelope(1, ch, be(0x0032000A, 4) + [0, 0, 0, 0] + wire_t)\n'
                      '    d2 = envelope(2, ch, [0, 60, 0, 0] + [0] * 8 + [0x20, 0x00] + wire_t)\n'
                      '    ok = True\n'
                      '    for d, get in ((d1, lambda f: f.arguments), (d2, lambda f: f.properties.headers)):\n'
                      '        for rnd in (0, 1, 2):\n'
                      '            t = get(frame.unmarshal(d)[2])\n'
                      '            ok = ok and len(t) == 2 and len(t["k"]) == 2 and t["k"][0] == a and t["k"][1]["j"] == b\n'
                      '            ok = ok and len(t["x"]) == 1 and t["x"][0] == a\n'
                      '            t["k"].append("seen")\n'
                      '            t["k"][1]["j"] = "seen"\n'
                      '            t["x"].append(0)\n'
                      '    return ok\n',
                      PRE, 200, family='wire_history',
                      bound='a nested table decoded three times from a method frame and from a content header, each '
                            'result mutated in place before the next decode', rep={'ch': 1, 'a': 200, 'b': 3}))
    for m in spec.METHODS:
        nstr = sum(1 for _, t, _ in m['args'] if t in ('shortstr', 'longstr'))
        has_table = any(t == 'table' for _, t, _ in m['args'])
        if q and has_table and nstr >= 2:
            # (a) strings symbolic, table empty; (b) strings fixed to "*", table symbolic
            parts.append(_method_part(m, 1, 400, 'a'))
            parts.append(_method_part(m, 1, 400, 'b'))
        else:
            parts.append(_method_part(m, 1 if q else 2, 400 if q else 480))
    tw = Part('twin_tag_u', [('v', 'bytes')] + T, ['len(v) == 2'] + TP,
              (T_INT % {'w': 2, 'tag': ord('u'), 'signed': False, 'tagL': False}).replace(
                  'return ok and type(got) is int and got == want', 'return not (ok and got == want)'),
              PRE, 60, expect='refuted', family='tag_value', bound='vacuity twin')
    parts.append(tw)
    return parts
