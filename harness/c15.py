"""C15 - timestamp handling does not depend on the host time zone or DST."""
import ast
import os

from engine import ksmt
from engine.part import Part
from harness import common

META = {
    'level': 'model_checking',
    'claim': 'The process time zone is a symbolic variable: standard offset std in [-14h, +14h] and a DST '
             'flag, answered by every modelled local-time API (naive .timestamp(), mktime, fromtimestamp / '
             'astimezone without tz, time.timezone / altzone / daylight). For all instants 0..2^32-1, all '
             'microseconds and all utc offsets, naive / aware / struct_time inputs must encode to the '
             'environment-independent reference bytes and decode to a UTC-aware value denoting the encoded '
             'instant. A result that depends on the host zone depends on a free variable and is refuted; '
             'the counterexample is replayed in a child process under a matching POSIX TZ (with a DST rule '
             'when the flag is set). The quantifier over configurations becomes a solver variable.',
    'trusted': 'symrt.symdt abstraction (SymDT / SymST / SymSeconds) - self-tested against CPython under 5 '
               'TZ settings; all zone dependence enters through the stubbed APIs (an AST scan of '
               'encode.py/decode.py reports any other time./datetime. API as unmodelled => inconclusive); '
               'K3 lemma below.',
    'bounds': 'instants 0..2^32-1; microsecond 0..999999; utc offsets and standard offsets -50400..50400 s; '
              'DST flag; naive / aware / struct_time (tm_isdst=-1, with and without tm_gmtoff); via encode.timestamp, '
              'encode_table_value, Basic.Properties.timestamp in a content header; decode also of the '
              'millisecond readings 2^32..253402300799999 (whole seconds and zone compared)',
    'outside': 'encoding of instants after 2106 (documented exception); the sub-second part of millisecond readings; historical zone changes; tm_isdst = 0/1 '
               'struct_time values; fold; binary64 rounding beyond the K3 lemma',
    'cuts': ['exception message formatting'],
    'assumptions': ['K3 (discharged as an LRA query): for 0 <= sec < 2^32, 0 <= us < 10^6 and any q with '
                    '|q - (sec + us/10^6)| <= 2^-22 (IEEE-754 half-ulp bound on [0, 2^32)) and q exact when '
                    'us = 0: sec <= q < sec + 1, hence int(datetime.timestamp()) == sec'],
}

PRE = common.PRELUDE + '''
def epoch_bytes_ok(data, epoch):
    return ref.equal(hx.fix(data), ref.u(epoch, 8))


def decoded_ok(data, epoch):
    c, v = decode.timestamp(hx.fix(data))
    p = hx.dt_parts(v)
    return c == 8 and p is not None and p[0] is True and p[1] == epoch and p[2] == 0 and p[3] == 0
'''

BODY = '''
def body(wall, us, off, std, dst):
    hx.env_zone(std, dst)
    kind = %(kind)d
    if kind == 0:
        v, epoch = hx.dt(wall, us, None), wall        # naive: read as UTC
    elif kind == 1:
        v, epoch = hx.dt(wall, us, off), wall - off   # aware: absolute instant
    elif kind == 2:
        v, epoch = hx.st(wall), wall                  # struct_time: read as UTC
    else:
        v, epoch = hx.st(wall, off), wall             # struct_time carrying tm_gmtoff: still read as UTC
    if not (0 <= epoch < 2**32):
        return hx.rejected()
    a = encode.timestamp(v)
    ok = epoch_bytes_ok(a, epoch) and decoded_ok(a, epoch)
    b = hx.fix(encode.encode_table_value(v))
    ok = ok and b[0] == ord('T') and epoch_bytes_ok(b[1:], epoch)
    if kind < 2:
        p = commands.Basic.Properties(timestamp=v)
        d = hx.fix(frame.marshal(header.ContentHeader(0, 1, p), 1))
        ok = ok and epoch_bytes_ok(d[7 + 14:7 + 22], epoch)
        g = frame.unmarshal(d)[2].properties.timestamp
        q = hx.dt_parts(g)
        ok = ok and q is not None and q[0] is True and q[1] == epoch and q[3] == 0
    return ok
'''

DECODE = '''
def body(n, std, dst):
    hx.env_zone(std, dst)
    data = hx.buf([0, 0, 0, 0, (n >> 24) & 255, (n >> 16) & 255, (n >> 8) & 255, n & 255])
    ok = decoded_ok(data, n)
    c, v = decode.embedded_value(hx.buf([ord('T')]) + data)
    p = hx.dt_parts(v)
    return ok and c == 9 and p is not None and p[0] is True and p[1] == n and p[3] == 0
'''

DECODE_MS = '''
def body(v, std, dst):
    # wire values above 2^32-1 are read as milliseconds (sixth seeded round, H15_1): the branch must be as
    # zone-independent as the seconds branch. The six low octets are the symbolic input and n is their
    # linear combination (building octets from n by div/mod makes every solver query slow).
    hx.env_zone(std, dst)
    bl = hx.blist(v, 6)
    n = ((((bl[0] * 256 + bl[1]) * 256 + bl[2]) * 256 + bl[3]) * 256 + bl[4]) * 256 + bl[5]
    if not (2**32 <= n <= 253402300799999):
        return hx.rejected()
    data = hx.buf([0, 0] + bl)
    c, v1 = decode.timestamp(data)
    p = hx.dt_parts(v1)
    ok = c == 8 and p is not None and p[0] is True and p[1] == n // 1000 and p[3] == 0
    c, v2 = decode.embedded_value(hx.buf([ord('T')]) + data)
    p = hx.dt_parts(v2)
    return ok and c == 9 and p is not None and p[0] is True and p[1] == n // 1000 and p[3] == 0
'''

MODELLED = {
    'datetime': {'datetime', 'timezone', 'timedelta', 'tzinfo'},
    'time': {'struct_time', 'mktime', 'timezone', 'altzone', 'daylight'},
    'calendar': {'timegm'},
}
MODELLED_METHODS = {'fromtimestamp', 'utcfromtimestamp', 'timestamp', 'replace', 'astimezone', 'utcoffset',
                    'timetuple', 'utctimetuple', 'utc', 'tzinfo', 'microsecond', 'total_seconds'}


def scan_unmodelled(repo):
    found = []
    for fn in ('encode.py', 'decode.py', 'base.py', 'header.py', 'frame.py'):
        tree = ast.parse(open(os.path.join(repo, 'pamqp', fn)).read())
        for node in ast.walk(tree):
            if isinstance(node, ast.Attribute) and isinstance(node.value, ast.Name) \
                    and node.value.id in MODELLED and node.attr not in MODELLED[node.value.id]:
                found.append('%s:%d %s.%s' % (fn, node.lineno, node.value.id, node.attr))
            if isinstance(node, ast.Attribute) and isinstance(node.value, ast.Attribute) \
                    and isinstance(node.value.value, ast.Name) and node.value.value.id == 'datetime' \
                    and node.value.attr == 'datetime' and node.attr not in MODELLED_METHODS:
                found.append('%s:%d datetime.datetime.%s' % (fn, node.lineno, node.attr))
            if isinstance(node, (ast.Import, ast.ImportFrom)):
                names = [a.name for a in node.names]
                mod = getattr(node, 'module', None)
                for n in names + ([mod] if mod else []):
                    if n and n.split('.')[0] in ('zoneinfo', 'pytz', 'dateutil', 'tzlocal', 'email'):
                        found.append('%s:%d import %s' % (fn, node.lineno, n))
    return found


K3 = '''(set-logic QF_LIRA)
(declare-const sec Int)
(declare-const us Int)
(declare-const q Real)
(define-fun x () Real (+ (to_real sec) (/ (to_real us) 1000000.0)))
(define-fun e () Real (/ 1.0 4194304.0))
(assert (and (<= 0 sec) (< sec 4294967296) (<= 0 us) (< us 1000000)))
; IEEE-754: q = RNE(x), 0 <= x < 2^32  =>  |q - x| <= 2^-22 ; q = x when x is an integer
(assert (and (<= (- x e) q) (<= q (+ x e))))
(assert (=> (= us 0) (= q x)))
'''


def kernels(tier, seed):
    repo = os.environ.get('VERIF_REPO', '/repo')
    out = []
    unm = scan_unmodelled(repo)
    out.append({'name': 'ast_scan_time_apis', 'status': 'unsat' if not unm else 'unknown', 'solver': 'ast',
                'queries': 0, 'solver_time_s': 0.0, 'bound': 'pamqp/{encode,decode,base,header,frame}.py',
                'detail': 'unmodelled time/datetime APIs: ' + ', '.join(unm) if unm else
                          'all time/datetime APIs used are modelled'})
    solvers = ['z3-5.1'] if tier == 'quick' else ksmt.available()
    for sname in solvers:
        if sname not in ksmt.available():
            continue
        q = [('k3_trunc', '(assert (not (and (<= (to_real sec) q) (< q (+ (to_real sec) 1.0)))))', [])]
        pre = K3 if sname != 'cvc5' else K3
        for r in ksmt.run_batch(sname, pre, q, timeout_s=60):
            out.append({'name': 'K3_timestamp_truncation@' + sname, 'status': r['status'], 'solver': sname,
                        'queries': 1, 'solver_time_s': r['solver_time_s'],
                        'bound': '0 <= sec < 2^32, 0 <= us < 10^6, |q - x| <= 2^-22',
                        'detail': r['raw'][:200] if r['status'] != 'unsat' else
                                  'trunc of the binary64 quotient equals the whole seconds'})
    return out


def partitions(tier, seed):
    params = [('wall', 'int'), ('us', 'int'), ('off', 'int'), ('std', 'int'), ('dst', 'bool')]
    pre = ['-50400 <= wall < 2**32 + 50400', '0 <= us < 1000000', '-50400 <= off <= 50400',
           '-50400 <= std <= 50400']
    parts = []
    for kind, label in ((0, 'naive'), (1, 'aware'), (2, 'struct_time'), (3, 'struct_time_gmtoff')):
        parts.append(Part('tz_' + label, params, pre, BODY % {'kind': kind}, PRE, 250,
                          family='tz_independence',
                          bound='%s input: all instants 0..2^32-1 x microsecond x utc offset x zone (std, dst)' % label,
                          rep={'wall': 1720000000, 'us': 123456, 'off': 19800, 'std': -18000, 'dst': True},
                          tz_replay=True))
    parts.append(Part('tz_decode', [('n', 'int'), ('std', 'int'), ('dst', 'bool')],
                      ['0 <= n < 2**32', '-50400 <= std <= 50400'], DECODE, PRE, 150,
                      family='tz_independence', bound='decode of every 32-bit timestamp under every zone',
                      rep={'n': 1089590400, 'std': 3600, 'dst': True}, tz_replay=True))
    parts.append(Part('tz_decode_ms', [('v', 'bytes'), ('std', 'int'), ('dst', 'bool')],
                      ['len(v) == 6', '-50400 <= std <= 50400'], DECODE_MS, PRE, 150,
                      family='tz_independence',
                      bound='decode of every millisecond timestamp 2^32..253402300799999 (year 9999) under every zone',
                      rep={'v': {'__bytes__': '%012x' % 1720000000123}, 'std': -18000, 'dst': True}, tz_replay=True))
    tw = Part('twin_tz_naive', params, pre, (BODY % {'kind': 0}).replace('    return ok\n', '    return not ok\n'),
              PRE, 60, expect='refuted', family='tz_independence', bound='vacuity twin')
    parts.append(tw)
    return parts
