"""C14 - method catalogue matches the AMQP 0-9-1 + RabbitMQ specification."""
import json
import os
import subprocess

from engine import ksmt
from engine.part import Part
from harness import common
from harness.common import spec

META = {
    'level': 'translation_validation',
    'engine': 'ksmt + crosshair-symrt',
    'technique': 'finite-map equivalence query (SMT, unsat = equal) between the generated catalogue '
                 'and an independent spec table + bounded symbolic execution of frame.unmarshal over a '
                 'symbolic 32-bit method index',
    'claim': 'The generated catalogue (extracted from the imported module AND from the AST of '
             'pamqp/commands.py on every run) is compared attribute by attribute with an independently '
             'transcribed specification table as finite SMT functions over a symbolic method index: '
             '"exists i. code(i) != spec(i)" must be unsat for each attribute (a model names the '
             'class). In addition frame.unmarshal is executed symbolically for ALL 2^32 method index '
             'values: exactly the 64 specified indexes decode, each to the class the spec names.',
    'trusted': 'spec/amqp091.py (hand transcription of the protocol documents + codegen/extensions.xml '
               'overrides); z3; CrossHair; forking INDEX_MAPPING lookup model. The domain is finite, so '
               'the solver work is trivial: the strength of this check is the independent table.',
    'bounds': 'all 64 method classes + Basic.Properties, every attribute; all 2^32 index values',
    'outside': 'tools/codegen.py itself is not executed (needs lxml/requests and downloaded spec files)',
    'cuts': [],
}

EXTRACT = r'''
import ast, inspect, json, re, sys
root = sys.argv[1]
sys.path.insert(0, root)
from pamqp import commands, base
out = {'methods': {}, 'ast': {}, 'extra_classes': []}
def doc_defaults(cls):
    res, cur = {}, None
    for line in (cls.__doc__ or '').splitlines():
        m = re.match(r'\s*:param (\w+):', line)
        if m:
            cur = m.group(1); res.setdefault(cur, None); continue
        m = re.match(r'\s*:type ', line)
        if m: continue
        m = re.search(r'- Default: ``(.*)``', line)
        if m and cur: res[cur] = m.group(1)
    return res
def enc(v):
    return json.dumps(v, sort_keys=True, default=repr)
for key, cls in commands.INDEX_MAPPING.items():
    sig = inspect.signature(cls.__init__) if '__init__' in vars(cls) else inspect.Signature(
        [inspect.Parameter('self', inspect.Parameter.POSITIONAL_OR_KEYWORD)])
    outer = getattr(commands, cls.name.split('.')[0], None)
    dd = doc_defaults(cls)
    defaults = []
    for a in cls.__slots__:
        p = sig.parameters.get(a)
        d = p.default if p is not None else '<missing>'
        if d is inspect.Parameter.empty: d = '<required>'
        if cls.amqp_type(a) == 'table' and d == {}: d = None     # None and {} both denote the empty table
        defaults.append(d)
    try:
        inst = cls()
        inst_vals = [getattr(inst, a) for a in cls.__slots__]
    except Exception as e:
        inst_vals = 'ERR ' + type(e).__name__
    out['methods'][str(key)] = {
        'own_index': getattr(cls, 'index', '<missing>'), 'method_id': getattr(cls, 'frame_id', '<missing>'),
        'class_id': getattr(outer, 'frame_id', None), 'class_index': getattr(outer, 'index', None),
        'qualname': cls.__qualname__, 'name': cls.name, 'synchronous': getattr(cls, 'synchronous', '<missing>'),
        'replies': list(getattr(cls, 'valid_responses', ['<missing>'])), 'argnames': list(cls.__slots__),
        'attributes': list(cls.attributes()), 'annotations': [k for k in cls.__annotations__.keys() if not k.startswith('__')],
        'argtypes': [cls.amqp_type(a) for a in cls.__slots__], 'ctor_params': list(sig.parameters)[1:],
        'defaults': defaults, 'doc_defaults': [dd.get(a) for a in cls.__slots__],
        'instance_defaults': inst_vals, 'is_frame': issubclass(cls, base.Frame),
    }
# every Frame subclass defined in commands must be in the mapping exactly once
vals = list(commands.INDEX_MAPPING.values())
for oname, outer in vars(commands).items():
    if inspect.isclass(outer) and outer.__module__ == commands.__name__:
        for iname, inner in vars(outer).items():
            if inspect.isclass(inner) and issubclass(inner, base.Frame):
                if vals.count(inner) != 1:
                    out['extra_classes'].append('%s.%s x%d' % (oname, iname, vals.count(inner)))
P = commands.Basic.Properties
sig = inspect.signature(P.__init__)
out['properties'] = {
    'names': list(P.__slots__), 'types': [P.amqp_type(a) for a in P.__slots__],
    'flags': [P.flags.get(a) for a in P.__slots__], 'flag_keys': list(P.flags.keys()),
    'defaults': [sig.parameters[a].default if a in sig.parameters else '<missing>' for a in P.__slots__],
    'ctor_params': list(sig.parameters)[1:], 'attributes': list(P.attributes()),
    'name': P.name, 'basic_class_id': commands.Basic.frame_id,
}
# AST view of the same file (regenerated from source, independent of import-time effects)
tree = ast.parse(open(root + '/pamqp/commands.py').read())
for node in tree.body:
    if isinstance(node, ast.ClassDef):
        for sub in node.body:
            if isinstance(sub, ast.ClassDef):
                d = {}
                for st in sub.body:
                    if isinstance(st, ast.Assign) and len(st.targets) == 1 and isinstance(st.targets[0], ast.Name):
                        try: d[st.targets[0].id] = ast.literal_eval(st.value)
                        except Exception: pass
                    if isinstance(st, ast.AnnAssign) and isinstance(st.target, ast.Name) and st.value is not None:
                        try: d[st.target.id] = ast.literal_eval(st.value)
                        except Exception: pass
                out['ast']['%s.%s' % (node.name, sub.name)] = {
                    k: d.get(k) for k in ('index', 'frame_id', 'name', 'synchronous', 'valid_responses', '__slots__')}
    if isinstance(node, ast.Assign) and getattr(node.targets[0], 'id', '') == 'INDEX_MAPPING':
        m = None
        if isinstance(node.value, ast.Dict):
            m = {}
            try:
                for k, v in zip(node.value.keys, node.value.values):
                    m[str(ast.literal_eval(k))] = ast.unparse(v)
            except Exception:
                m = None
        out['ast_mapping'] = m      # None: not a plain literal (AST view unavailable)
print(json.dumps(out, default=repr))
'''


def extract(repo):
    p = subprocess.run(['/venv/bin/python', '-c', EXTRACT, repo], capture_output=True, text=True,
                       timeout=120)
    if p.returncode != 0:
        raise RuntimeError('catalogue extraction failed: ' + p.stderr[-2000:])
    return json.loads(p.stdout)


def _doc_default(d):
    if d is None:
        return None
    if isinstance(d, str):
        return "''" if d == '' else d
    if isinstance(d, dict):
        return '{}'
    return str(d)


def _ctor_default(wtype, d):
    return None if wtype == 'table' else d


def spec_view():
    out = {}
    for m in spec.METHODS:
        out[str(m['index'])] = {
            'own_index': m['index'], 'method_id': m['method_id'], 'class_id': m['class_id'],
            'class_index': m['class_id'] << 16,
            'qualname': m['name'], 'name': m['name'], 'synchronous': m['synchronous'],
            'replies': m['replies'], 'argnames': [a for a, _, _ in m['args']],
            'attributes': [a for a, _, _ in m['args']], 'annotations': [a for a, _, _ in m['args']],
            'argtypes': [t for _, t, _ in m['args']], 'ctor_params': [a for a, _, _ in m['args']],
            'defaults': [_ctor_default(t, d) for _, t, d in m['args']],
            'doc_defaults': [_doc_default(d) for _, _, d in m['args']],
            'instance_defaults': [d for _, _, d in m['args']], 'is_frame': True,
        }
    return out


ATTRS = ['own_index', 'method_id', 'class_id', 'class_index', 'qualname', 'name', 'synchronous',
         'replies', 'argnames', 'attributes', 'annotations', 'argtypes', 'ctor_params', 'defaults',
         'doc_defaults', 'instance_defaults', 'is_frame']


def _fun(name, table):
    """(define-fun name ((i Int)) String (ite (= i k) "v" ... "<absent>"))"""
    body = ksmt.smt_str('<absent>')
    for k in sorted(table, key=int, reverse=True):
        body = '(ite (= i %s) %s %s)' % (k, ksmt.smt_str(table[k]), body)
    return '(define-fun %s ((i Int)) String %s)' % (name, body)


def kernels(tier, seed):
    repo = os.environ.get('VERIF_REPO', '/repo')
    code = extract(repo)
    want = spec_view()
    pre = ['(set-logic ALL)', '(declare-const i Int)', '(assert (and (<= 0 i) (< i 4294967296)))']
    queries = []
    enc = lambda v: json.dumps(v, sort_keys=True)
    for a in ATTRS:
        pre.append(_fun('code_' + a, {k: enc(v.get(a)) for k, v in code['methods'].items()}))
        pre.append(_fun('spec_' + a, {k: enc(v.get(a)) for k, v in want.items()}))
        queries.append(('attr_' + a, '(assert (not (= (code_%s i) (spec_%s i))))' % (a, a), ['i']))
    # AST view: class attribute literals in the source text agree with the spec as well
    ast_by_index = {}
    ast_unavailable = code.get('ast_mapping') is None
    mapped = set((code.get('ast_mapping') or {}).values())
    for qual, d in code['ast'].items():
        # method classes only (Basic.Properties also carries an index attribute but is no method)
        if d.get('index') is not None and (qual in mapped or d.get('name') != 'Basic.Properties'):
            ast_by_index[str(d['index'])] = d
    for a, key in (('ast_name', 'name'), ('ast_method_id', 'frame_id'), ('ast_sync', 'synchronous'),
                   ('ast_replies', 'valid_responses'), ('ast_slots', '__slots__')):
        sk = {'name': 'name', 'frame_id': 'method_id', 'synchronous': 'synchronous',
              'valid_responses': 'replies', '__slots__': 'argnames'}[key]
        def norm(v, key=key):
            if key == 'valid_responses' and v is None:
                return []
            return v
        pre.append(_fun('code_' + a, {k: enc(norm(d.get(key))) for k, d in ast_by_index.items()}))
        pre.append(_fun('spec_' + a, {k: enc(v[sk]) for k, v in want.items()}))
        queries.append(('attr_' + a, '(assert (not (= (code_%s i) (spec_%s i))))' % (a, a), ['i']))
    if not ast_unavailable:
        pre.append(_fun('code_ast_mapping', code.get('ast_mapping') or {}))
        pre.append(_fun('spec_ast_mapping', {k: v['name'] for k, v in want.items()}))
        queries.append(('attr_ast_mapping', '(assert (not (= (code_ast_mapping i) (spec_ast_mapping i))))', ['i']))
    # derived invariants on the code side
    pre.append(_fun('code_sync_iff', {k: enc(bool(v['synchronous']) == (len(v['replies']) > 0))
                                     for k, v in code['methods'].items()}))
    queries.append(('inv_sync_iff_replies',
                    '(assert (and (not (= (code_sync_iff i) "<absent>")) (not (= (code_sync_iff i) "true"))))', ['i']))
    names = {v['name']: k for k, v in code['methods'].items()}
    pre.append(_fun('code_replies_same_class', {
        k: enc(all(r in names and (int(names[r]) >> 16) == (int(k) >> 16) for r in v['replies']))
        for k, v in code['methods'].items()}))
    queries.append(('inv_replies_same_class',
                    '(assert (and (not (= (code_replies_same_class i) "<absent>")) '
                    '(not (= (code_replies_same_class i) "true"))))', ['i']))
    # Basic.Properties: position j
    pc = code['properties']
    pw = {'names': [n for n, _ in spec.PROPERTIES], 'types': [t for _, t in spec.PROPERTIES],
          'flags': [spec.PROPERTY_FLAGS[n] for n, _ in spec.PROPERTIES],
          'flag_keys': [n for n, _ in spec.PROPERTIES],
          'defaults': [spec.PROPERTY_DEFAULTS[n] for n, _ in spec.PROPERTIES],
          'ctor_params': [n for n, _ in spec.PROPERTIES], 'attributes': [n for n, _ in spec.PROPERTIES]}
    for a in ('names', 'types', 'flags', 'flag_keys', 'defaults', 'ctor_params', 'attributes'):
        pre.append(_fun('code_p_' + a, {str(j): enc(v) for j, v in enumerate(pc[a])}))
        pre.append(_fun('spec_p_' + a, {str(j): enc(v) for j, v in enumerate(pw[a])}))
        queries.append(('prop_' + a, '(assert (not (= (code_p_%s i) (spec_p_%s i))))' % (a, a), ['i']))
    solvers = ['z3-5.1'] if tier == 'quick' else [s for s in ('z3-5.1', 'z3-4.8', 'cvc5') if s in ksmt.available()]
    if 'z3-5.1' not in ksmt.available():
        solvers = ksmt.available()[:1]
    results = []
    for sname in solvers:
        for r in ksmt.run_batch(sname, '\n'.join(pre), queries, timeout_s=60):
            kr = {'name': r['name'] + '@' + sname, 'status': r['status'], 'solver': sname, 'queries': 1,
                  'solver_time_s': r['solver_time_s'],
                  'bound': 'all method indexes 0..2^32-1 (finite map with default <absent>)',
                  'detail': ''}
            if r['status'] == 'sat':
                idx = ksmt.parse_smt_int(r['values'].get('i', '0'))
                attr = r['name']
                kr['detail'] = 'index %d (0x%08x) attribute %s' % (idx, idx, attr)
                kr['replay_part'] = _witness_part()
                kr['replay_args'] = {'index': idx, 'attr': attr}
            elif r['status'] != 'unsat':
                kr['detail'] = r['raw'][:300]
            results.append(kr)
    if ast_unavailable:
        results.append({'name': 'attr_ast_mapping', 'status': 'unknown', 'solver': 'ast', 'queries': 0,
                        'solver_time_s': 0, 'detail': 'INDEX_MAPPING is not a dict literal: the AST view is '
                        'unavailable (the imported mapping is still compared)'})
    if code['extra_classes']:
        results.append({'name': 'classes_not_in_mapping', 'status': 'sat', 'solver': 'n/a', 'queries': 0,
                        'solver_time_s': 0, 'detail': ', '.join(code['extra_classes']),
                        'replay_part': _witness_part(), 'replay_args': {'index': -1, 'attr': 'extra_classes'}})
    if pc.get('basic_class_id') != spec.BASIC_CLASS_ID or pc.get('name') != 'Basic.Properties':
        results.append({'name': 'properties_identity', 'status': 'sat', 'solver': 'n/a', 'queries': 0,
                        'solver_time_s': 0, 'detail': str((pc.get('basic_class_id'), pc.get('name'))),
                        'replay_part': _witness_part(), 'replay_args': {'index': -2, 'attr': 'properties_identity'}})
    return results


WITNESS_BODY = '''
def body(index, attr):
    """concrete re-check of one catalogue entry against the spec table on the real module"""
    import os
    from harness import c14
    code = c14.extract(os.environ.get('VERIF_REPO', '/repo'))
    want = c14.spec_view()
    if attr == 'extra_classes':
        return not code['extra_classes']
    if attr == 'properties_identity':
        return code['properties']['basic_class_id'] == 60 and code['properties']['name'] == 'Basic.Properties'
    if attr.startswith('prop_'):
        a = attr[5:]
        pw = {'names': [n for n, _ in spec.PROPERTIES], 'types': [t for _, t in spec.PROPERTIES],
              'flags': [spec.PROPERTY_FLAGS[n] for n, _ in spec.PROPERTIES],
              'flag_keys': [n for n, _ in spec.PROPERTIES],
              'defaults': [spec.PROPERTY_DEFAULTS[n] for n, _ in spec.PROPERTIES],
              'ctor_params': [n for n, _ in spec.PROPERTIES], 'attributes': [n for n, _ in spec.PROPERTIES]}
        return code['properties'][a] == pw[a]
    c, w = code['methods'].get(str(index)), want.get(str(index))
    if attr.startswith('inv_'):
        if c is None:
            return True
        if attr == 'inv_sync_iff_replies':
            return bool(c['synchronous']) == (len(c['replies']) > 0)
        names = {v['name']: k for k, v in code['methods'].items()}
        return all(r in names and (int(names[r]) >> 16) == (index >> 16) for r in c['replies'])
    if attr.startswith('attr_ast_'):
        return False   # AST-level disagreement: the source text differs from the spec
    a = attr[5:]
    if (c is None) != (w is None):
        return False
    return c is None or c.get(a) == w.get(a)
'''


def _witness_part():
    return Part(name='catalogue_witness', params=[('index', 'int'), ('attr', 'str')], pre=[],
                body=WITNESS_BODY, prelude=common.PRELUDE, timeout=60, family='catalogue_witness',
                bound='one catalogue entry')


INDEX_BODY = '''
def body(i, ch):
    d = hx.buf([1, ch // 256, ch % 256, 0, 0, 0, 44] + [(i >> 24) & 255, (i >> 16) & 255, (i >> 8) & 255, i & 255]
               + [0] * 40 + [0xCE])
    try:
        n, c, f = frame.unmarshal(d)
    except exceptions.UnmarshalingException:
        # must be an index the specification does not define (range comparisons, no hashing)
        for k in SPEC_INDEXES:
            if i == k:
                return False
        return True
    k = f.index                      # concrete class attribute of the object actually built
    want = spec.BY_INDEX.get(k)
    return (i == k and want is not None and f.name == want['name'] and type(f).__qualname__ == want['name']
            and n == 52 and c == ch and list(f.attributes()) == [a for a, _, _ in want['args']])
'''


AFTER_USE = '''
def body(k):
    """every constructor default still equals the specification after instances have been used: built with
    defaults, their containers filled in place, sent through the wire and decoded"""
    ok = True
    classes = sorted(commands.INDEX_MAPPING.items())[k::4]
    for rnd in (0, 1):
        for index, cls in classes:
            m = spec.BY_INDEX[index]
            kwargs = {}
            for (a, t, d) in m["args"]:
                if d is None and t != "table":
                    kwargs[a] = {"bit": True, "shortstr": "x", "longstr": "x"}.get(t, 1)
            f = cls(**kwargs)
            for (a, t, d) in m["args"]:
                v = getattr(f, a)
                if a not in kwargs:
                    ok = ok and v == d and (type(v) is type(d))
                if isinstance(v, dict):
                    v["x-used"] = [1, {"y": 2}]
            g = frame.unmarshal(frame.marshal(f, 1))[2]
            for (a, t, d) in m["args"]:
                v = getattr(g, a)
                if isinstance(v, dict):
                    v["x-decoded"] = True
            h = cls(**kwargs)
            for (a, t, d) in m["args"]:
                if a not in kwargs:
                    w = getattr(h, a)
                    ok = ok and w == d and type(w) is type(d)
    return ok
'''


def partitions(tier, seed):
    parts = []
    pre = common.PRELUDE + '\nSPEC_INDEXES = sorted(spec.BY_INDEX)\n'
    # one partition per AMQP class-id window keeps each exploration small
    bounds = [0, 10 << 16, 20 << 16, 40 << 16, 50 << 16, 60 << 16, 85 << 16, 90 << 16, 91 << 16, 2 ** 32]
    for a, b in zip(bounds, bounds[1:]):
        parts.append(Part(name='index_%08x' % a, params=[('i', 'int'), ('ch', 'int')],
                          pre=['%d <= i < %d' % (a, b), '0 <= ch <= 65535'], body=INDEX_BODY, prelude=pre,
                          timeout=300, family='symbolic_method_index',
                          bound='every method index in [0x%08x, 0x%08x)' % (a, b),
                          rep={'i': a + 10 if a else 0x3c0028, 'ch': 1}))
    for k in range(4):
        parts.append(Part(name='defaults_after_use_%d' % k, params=[('k', 'int')], pre=[], body=AFTER_USE,
                          prelude=common.PRELUDE, timeout=60, family='defaults_after_use',
                          bound='16 classes: defaults re-checked after instances were mutated in place and '
                                'round-tripped (concrete history, twice)', rep={'k': k}, concrete_only=True))
    return parts


def evidence_extra(tier, kernel_results, results):
    ok = [k for k in kernel_results if k['status'] == 'unsat']
    return {'programs': 65, 'disagreements_checked': len(kernel_results),
            'obligations': len(kernel_results), 'discharged': len(ok),
            'explanation': 'programs = 64 generated method classes + Basic.Properties compared with the '
                           'independent table; disagreements_checked = attribute-level equivalence '
                           'queries discharged (unsat) by the SMT solver'}
