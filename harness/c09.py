"""C09 - every decode failure is an UnmarshalingException."""
from harness import buffers

META = {
    'level': 'model_checking',
    'claim': 'frame.unmarshal is executed symbolically on arbitrary byte strings and on valid '
             'envelopes with arbitrary payload bytes (all 64 method classes, content headers, tables '
             'with every type tag); the only exception type allowed to leave it is '
             'UnmarshalingException. Which inputs reach which raising site is decided by the solver, '
             'not enumerated by hand.',
    'trusted': 'CrossHair + z3 (incl. its UTF-8 decoder model); symrt struct/CBytes/bitwise/dict '
               'models; forking INDEX_MAPPING lookup.',
    'bounds': {
        'quick': 'raw buffers of every length 0..13; per method class: valid envelope + {2, 5} '
                 'arbitrary argument bytes; Queue.Declare and content-header tables '
                 'with an arbitrary 4-byte length, one arbitrary key byte, each of the 19 tags + one '
                 'unknown tag and up to 4 arbitrary value bytes; content header with 12 arbitrary fixed bytes '
                 '+ {2, 3} arbitrary flag/property bytes',
        'thorough': 'raw 0..16; per class {2, 5, 8} argument bytes; all 13 table-carrying classes; '
                    'header {2, 3, 4, 5}',
    },
    'outside': 'longer payloads; table nesting deeper than one level below the argument (nesting '
               'depth is bounded by the buffer size, far below the recursion limit)',
    'cuts': ['exception message formatting'],
}

TABLE_CLASSES_ALL = ['Connection.Start', 'Connection.StartOk', 'Exchange.Declare', 'Exchange.Bind',
                     'Exchange.Unbind', 'Queue.Declare', 'Queue.Bind', 'Queue.Unbind', 'Basic.Consume']


def partitions(tier, seed):
    if tier == 'quick':
        return buffers.parts_for('c09', tier, raw_max=13, m_extra=(2, 5), hdr_extra=(2, 3),
                                 table_classes=['Queue.Declare'],
                                 table_tags=buffers.TAGS, timeout=150)
    return buffers.parts_for('c09', tier, raw_max=16, m_extra=(2, 5, 8), hdr_extra=(2, 3, 4, 5),
                             table_classes=TABLE_CLASSES_ALL, table_tags=buffers.TAGS, timeout=480)
