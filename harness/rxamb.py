"""K4 - regular expressions applied by the decoders cannot backtrack exponentially.

The loop/call tick budget of C08 cannot see work done inside the `re` engine.  This kernel closes that gap
with the solver: every regular expression that code reachable from the decoders applies (found by an AST
scan of /repo's current source) is translated to an SMT-LIB RegLan, and for every unbounded repeat `B*` in
it z3 is asked for a word w with

        w in L(B)   and   w in L(B B+)        (one iteration or several: the loop is ambiguous)

together with a prefix that reaches the loop and a suffix that makes the overall match fail.  `unsat` for
every repeat = no exponentially ambiguous loop (strings of any length); `sat` = the witness is pumped
(prefix + w*n + suffix), placed in every string position of a method frame and a content header, decoded by
the real code, and reported only when the decode time really grows exponentially with n.
"""
import ast
import os
import re
import re._parser as sp

from engine import ksmt
from engine.part import Part
from harness import common

RX_METHODS = {'match', 'search', 'fullmatch', 'findall', 'finditer', 'sub', 'subn', 'split'}
ROOT_MODULE = 'decode'
ROOT_NAMES = {'unmarshal', 'frame_parts'}


class Unsupported(Exception):
    pass


def _lit_flags(call):
    fl = 0
    for extra in list(call.args[1:2]) + [kw.value for kw in call.keywords if kw.arg == 'flags']:
        fl |= int(eval(ast.unparse(extra), {'re': re}))
    return fl


def scan(repo):
    """-> (sites, unresolved): sites = list of (where, method, pattern, flags) for every regex applied by a
    function reachable (by name) from the decoders; unresolved = call sites whose pattern is not a literal"""
    pkg = os.path.join(repo, 'pamqp')
    trees = {}
    for fn in sorted(os.listdir(pkg)):
        if fn.endswith('.py'):
            trees[fn[:-3]] = ast.parse(open(os.path.join(pkg, fn)).read())
    # module-level compiled patterns, by name (dict values: every entry)
    compiled = {}
    for mod, tree in trees.items():
        for node in tree.body:
            if not isinstance(node, (ast.Assign, ast.AnnAssign)) or node.value is None:
                continue
            tgt = node.targets[0] if isinstance(node, ast.Assign) else node.target
            name = getattr(tgt, 'id', None)
            if name is None:
                continue
            vals = node.value.values if isinstance(node.value, ast.Dict) else [node.value]
            for v in vals:
                if isinstance(v, ast.Call) and ast.unparse(v.func) == 're.compile' and v.args:
                    try:
                        compiled.setdefault(name, []).append((ast.literal_eval(v.args[0]), _lit_flags(v)))
                    except Exception:
                        compiled.setdefault(name, []).append(None)
    # functions by bare name
    funcs = {}
    for mod, tree in trees.items():
        for node in ast.walk(tree):
            if isinstance(node, (ast.FunctionDef, ast.AsyncFunctionDef)):
                funcs.setdefault(node.name, []).append((mod, node))
    reach, todo = set(), []
    for name, defs in funcs.items():
        if name in ROOT_NAMES or any(m == ROOT_MODULE for m, _ in defs):
            todo.append(name)
    while todo:
        n = todo.pop()
        if n in reach:
            continue
        reach.add(n)
        for mod, fn in funcs.get(n, []):
            for c in ast.walk(fn):
                if isinstance(c, ast.Call):
                    callee = c.func.id if isinstance(c.func, ast.Name) else getattr(c.func, 'attr', None)
                    if callee in funcs and callee not in reach:
                        todo.append(callee)
    sites, unresolved = [], []
    for name in sorted(reach):
        for mod, fn in funcs[name]:
            for c in ast.walk(fn):
                if not isinstance(c, ast.Call) or not isinstance(c.func, ast.Attribute):
                    continue
                where = 'pamqp/%s.py:%d %s' % (mod, c.lineno, name)
                recv, meth = c.func.value, c.func.attr
                if isinstance(recv, ast.Name) and recv.id == 're':
                    if meth in RX_METHODS or meth == 'compile':
                        try:
                            sites.append((where, 'search' if meth == 'compile' else meth,
                                          ast.literal_eval(c.args[0]), _lit_flags(c)))
                        except Exception:
                            unresolved.append(where)
                    continue
                if meth not in RX_METHODS:
                    continue
                base = recv.value if isinstance(recv, ast.Subscript) else recv
                rname = base.id if isinstance(base, ast.Name) else getattr(base, 'attr', None)
                if rname in compiled:
                    for ent in compiled[rname]:
                        if ent is None:
                            unresolved.append(where)
                        else:
                            sites.append((where, meth, ent[0], ent[1]))
    return sites, unresolved


ANY = 're.allchar'


def _cls(items):
    neg, alts = False, []
    for op, av in items:
        if op is sp.NEGATE:
            neg = True
        elif op is sp.LITERAL:
            alts.append('(str.to_re %s)' % ksmt.smt_str(chr(av)))
        elif op is sp.RANGE:
            alts.append('(re.range %s %s)' % (ksmt.smt_str(chr(av[0])), ksmt.smt_str(chr(av[1]))))
        else:
            raise Unsupported('class item %s' % (op,))
    r = alts[0] if len(alts) == 1 else '(re.union %s)' % ' '.join(alts)
    return '(re.diff %s %s)' % (ANY, r) if neg else r


def _cat(xs):
    xs = [x for x in xs if x != '(str.to_re "")']
    if not xs:
        return '(str.to_re "")'
    return xs[0] if len(xs) == 1 else '(re.++ %s)' % ' '.join(xs)


class Translator:
    """RegLan of a parsed pattern; records every unbounded repeat with the RegLan of what precedes it"""

    def __init__(self):
        self.loops = []      # (body RegLan, prefix RegLan)

    def seq(self, nodes, prefix):
        out = []
        for op, av in nodes:
            out.append(self.node(op, av, _cat([prefix] + out)))
        return _cat(out)

    def node(self, op, av, prefix):
        if op is sp.AT:
            if av in (sp.AT_BEGINNING, sp.AT_BEGINNING_STRING, sp.AT_END, sp.AT_END_STRING):
                return '(str.to_re "")'          # handled by the caller (anchoring), see anchors()
            raise Unsupported('anchor %s' % (av,))
        if op is sp.LITERAL:
            return '(str.to_re %s)' % ksmt.smt_str(chr(av))
        if op is sp.NOT_LITERAL:
            return '(re.diff %s (str.to_re %s))' % (ANY, ksmt.smt_str(chr(av)))
        if op is sp.ANY:
            return '(re.diff %s (str.to_re %s))' % (ANY, ksmt.smt_str('\n'))
        if op is sp.IN:
            return _cls(av)
        if op is sp.SUBPATTERN:
            group, add, dele, sub = av
            if add or dele:
                raise Unsupported('inline flags')
            return self.seq(list(sub), prefix)
        if op is sp.BRANCH:
            return '(re.union %s)' % ' '.join(self.seq(list(b), prefix) for b in av[1]) \
                if len(av[1]) > 1 else self.seq(list(av[1][0]), prefix)
        if op in (sp.MAX_REPEAT, sp.MIN_REPEAT):
            lo, hi, sub = av
            body = self.seq(list(sub), prefix)
            if hi is sp.MAXREPEAT:
                # zero or more earlier iterations may precede the ambiguous stretch
                self.loops.append((body, _cat([prefix])))
                star = '(re.* %s)' % body
                return _cat(['((_ re.loop %d %d) %s)' % (lo, lo, body) if lo > 1 else body if lo == 1 else
                             '(str.to_re "")', star])
            if (lo, hi) == (0, 1):
                return '(re.opt %s)' % body
            return '((_ re.loop %d %d) %s)' % (lo, hi, body)
        raise Unsupported('regex construct %s' % (op,))


def anchors(parsed, method):
    """-> (anchored at start, anchored at end) for the way the pattern is applied"""
    nodes = list(parsed)
    a0 = method in ('match', 'fullmatch') or (nodes and nodes[0][0] is sp.AT and
                                              nodes[0][1] in (sp.AT_BEGINNING, sp.AT_BEGINNING_STRING))
    a1 = method == 'fullmatch' or (nodes and nodes[-1][0] is sp.AT and
                                   nodes[-1][1] in (sp.AT_END, sp.AT_END_STRING))
    for i, (op, av) in enumerate(nodes):
        if op is sp.AT and 0 < i < len(nodes) - 1:
            raise Unsupported('inner anchor')
    return bool(a0), bool(a1)


def queries_for(site_no, method, pattern, flags):
    """-> list of (name, smt text, values)"""
    if flags & ~re.UNICODE:
        raise Unsupported('flags %s' % flags)
    if not isinstance(pattern, str):
        raise Unsupported('bytes pattern')
    parsed = sp.parse(pattern, flags)
    tr = Translator()
    full = tr.seq(list(parsed), '(str.to_re "")')
    a0, a1 = anchors(parsed, method)
    lang = _cat(([] if a0 else ['(re.* %s)' % ANY]) + [full] + ([] if a1 else ['(re.* %s)' % ANY]))
    qs = []
    for k, (body, prefix) in enumerate(tr.loops):
        pre_lang = _cat(([] if a0 else ['(re.* %s)' % ANY]) + [prefix])
        text = '\n'.join([
            '(assert (str.in_re w %s))' % body,
            '(assert (str.in_re w (re.++ %s (re.+ %s))))' % (body, body),
            '(assert (> (str.len w) 0))',
            '(assert (str.in_re pre %s))' % pre_lang,
            '(assert (<= (str.len pre) 8))', '(assert (<= (str.len w) 8))', '(assert (<= (str.len suf) 2))',
            '(assert (not (str.in_re (str.++ pre w w suf) %s)))' % lang,
            '(assert (not (str.in_re (str.++ pre w w w suf) %s)))' % lang,
            '(assert (not (str.in_re (str.++ pre w w w w suf) %s)))' % lang,
        ])
        qs.append(('site%d_loop%d' % (site_no, k), text, ['pre', 'w', 'suf']))
    return qs


WITNESS = '''
import struct, time, signal


def _frames(s):
    b = s.encode("utf-8")
    if len(b) > 255:
        return []
    ss = bytes([len(b)]) + b
    ls = struct.pack(">I", len(b)) + b
    tbl = ss + b"S" + ls + ss + b"F" + struct.pack(">I", len(ss) + 1 + len(ls)) + ss + b"S" + ls
    tbl = struct.pack(">I", len(tbl)) + tbl
    def env(t, payload):
        return struct.pack(">BHI", t, 1, len(payload)) + payload + bytes([206])
    out = []
    # Queue.Declare: ticket, queue shortstr, bits, arguments table
    out.append(env(1, struct.pack(">HH", 50, 10) + b"\\x00\\x00" + ss + b"\\x00" + tbl))
    # Connection.StartOk: table, shortstr, longstr, shortstr
    out.append(env(1, struct.pack(">HH", 10, 11) + tbl + ss + ls + ss))
    # content header with every property present
    props = ss + ss + tbl + b"\\x01\\x01" + ss + ss + ss + ss + struct.pack(">Q", 1) + ss + ss + ss + ss
    out.append(env(2, struct.pack(">HHQH", 60, 0, 0, 0xFFFC) + props))
    return out


class _Alarm(Exception):
    pass


def _timed(data):
    def on(sig, frm):
        raise _Alarm()
    old = signal.signal(signal.SIGALRM, on)
    signal.alarm(20)
    t0 = time.process_time()
    try:
        try:
            frame.unmarshal(data)
        except _Alarm:
            return 20.0
        except Exception:
            pass
    finally:
        signal.alarm(0)
        signal.signal(signal.SIGALRM, old)
    return time.process_time() - t0


def body(pre, w, suf):
    """True = decode time stays small for every pumped string that fits a short string"""
    prev = {}
    n = 2
    while len((pre + w * n + suf).encode("utf-8", "surrogatepass")) <= 255:
        try:
            frames = _frames(pre + w * n + suf)
        except UnicodeEncodeError:
            return True
        for i, data in enumerate(frames):
            t = _timed(data)
            if t >= 0.5 and t >= 2.0 * max(prev.get(i, 0.0), 1e-4):
                hx.LAST["exc"] = "decode of %d bytes took %.2fs CPU with n=%d (n=%d: %.4fs)" % (
                    len(data), t, n, n - 2, prev.get(i, 0.0))
                return False
            prev[i] = t
        n += 2
    return True
'''


def witness_part():
    return Part(name='regex_backtracking_witness', params=[('pre', 'str'), ('w', 'str'), ('suf', 'str')],
                pre=[], body=WITNESS, prelude=common.PRELUDE, timeout=120, family='regex_backtracking_witness',
                bound='prefix + w*n + suffix for n = 2, 4, ... while the string fits a short string '
                      '(255 octets), in every string position of two method frames and a content header')


def kernels(tier, seed):
    repo = os.environ.get('VERIF_REPO', '/repo')
    sites, unresolved = scan(repo)
    out = []
    bound = 'every regular expression applied by a function reachable (by name) from pamqp.decode.*, ' \
            '*.unmarshal and frame_parts; words of any length (prefix and w <= 8, suffix <= 2 characters ' \
            'for the witness); %d call sites' % len(sites)
    for where in unresolved:
        out.append({'name': 'K4 ' + where, 'status': 'unknown', 'solver': 'ast', 'queries': 0, 'solver_time_s': 0,
                    'bound': bound, 'detail': 'pattern is not a literal: cannot be translated'})
    queries, names = [], {}
    for i, (where, meth, pat, fl) in enumerate(sites):
        try:
            qs = queries_for(i, meth, pat, fl)
        except Unsupported as e:
            out.append({'name': 'K4 ' + where, 'status': 'unknown', 'solver': 'ast', 'queries': 0,
                        'solver_time_s': 0, 'bound': bound, 'detail': 'outside the translated fragment: %s' % e})
            continue
        except Exception as e:       # re.error in the pattern itself
            out.append({'name': 'K4 ' + where, 'status': 'unknown', 'solver': 'ast', 'queries': 0,
                        'solver_time_s': 0, 'bound': bound, 'detail': 'pattern does not parse: %s' % e})
            continue
        for q in qs:
            names[q[0]] = (where, pat)
        queries += qs
    pre = '(set-logic ALL)\n(declare-const pre String)\n(declare-const w String)\n(declare-const suf String)\n'
    solver = 'z3-5.1' if 'z3-5.1' in ksmt.available() else (ksmt.available() or [None])[0]
    if queries and solver:
        for r in ksmt.run_batch(solver, pre, queries, timeout_s=60):
            where, pat = names[r['name']]
            kr = {'name': 'K4 %s %s' % (where, r['name']), 'status': r['status'], 'solver': solver, 'queries': 1,
                  'solver_time_s': r['solver_time_s'], 'bound': bound, 'detail': 'pattern %r' % pat}
            if r['status'] == 'sat':
                vals = {k: ksmt.parse_smt_string(v) for k, v in r['values'].items()}
                kr['detail'] += ' ambiguous loop: %r' % (vals,)
                kr['sat_means'] = 'candidate'
                kr['replay_part'] = witness_part()
                kr['replay_args'] = {'pre': vals.get('pre', ''), 'w': vals.get('w', ''), 'suf': vals.get('suf', '')}
            elif r['status'] != 'unsat':
                kr['detail'] += ' ' + r['raw'][:200]
            out.append(kr)
    out.append({'name': 'K4 regex call sites reachable from the decoders', 'status': 'unsat', 'solver': 'ast',
                'queries': 0, 'solver_time_s': 0, 'bound': bound,
                'detail': '%d call sites, %d repeat loops queried: %s'
                          % (len(sites), len(queries), [s[0] for s in sites][:8])})
    return out
