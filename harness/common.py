"""Shared harness generators driven by the independent spec table (never by the code under test)."""
import sys
import os

sys.path.insert(0, os.path.dirname(os.path.dirname(os.path.abspath(__file__))))
from spec import amqp091 as spec  # noqa: E402

PRELUDE = '''
from pamqp import frame, commands, encode, decode, header, body as _body, heartbeat, exceptions
from pamqp import base, constants, common
from spec import refcodec as ref
from spec import amqp091 as spec
'''

INT_RANGE = {'octet': (0, 255), 'short': (0, 65535), 'long': (0, 2 ** 32 - 1),
             'longlong': (-2 ** 63, 2 ** 63 - 1)}
PYTYPE = {'octet': 'int', 'short': 'int', 'long': 'int', 'longlong': 'int', 'bit': 'bool',
          'shortstr': 'str', 'longstr': 'str', 'table': 'dict'}

# table helper used by method-level harnesses: the table only has to sit at the right offset
TABLE_HELPER = '''
def mk_table(tk, tkey, tval):
    """tk: 0 -> None, 1 -> {}, 2 -> {tkey: tval}"""
    if tk == 0:
        return None
    if tk == 1:
        return hx.table([])
    return hx.table([(tkey, tval)])


def table_eq(got, tk, tkey, tval):
    if not isinstance(got, dict):
        return False
    if tk == 2:
        return len(got) == 1 and got[tkey] == tval and type(got[tkey]) is int
    return len(got) == 0
'''


def cls_expr(name):
    return 'commands.' + name


def method_params(m, strlen, with_table=True, fixed=None):
    """-> (params, pre, ctor_args, checks, rep) for one method of the spec table.
    fixed: dict arg name -> python literal to pin (not symbolic)."""
    fixed = fixed or {}
    params, pre, ctor, checks, rep = [], [], [], [], {}
    has_table = False
    for (name, wtype, default) in m['args']:
        v = 'a_' + name
        if name in fixed:
            ctor.append(repr(fixed[name]))
            checks.append('f.%s == %r' % (name, fixed[name]))
            continue
        if wtype in INT_RANGE:
            lo, hi = INT_RANGE[wtype]
            params.append((v, 'int'))
            pre.append('%d <= %s <= %d' % (lo, v, hi))
            ctor.append(v)
            checks.append('f.%s == %s and type(f.%s) is int' % (name, v, name))
            rep[v] = default if isinstance(default, int) and not isinstance(default, bool) else (hi if wtype != 'longlong' else -5)
        elif wtype == 'bit':
            params.append((v, 'bool'))
            ctor.append(v)
            checks.append('f.%s == %s and type(f.%s) is bool' % (name, v, name))
            rep[v] = True
        elif wtype in ('shortstr', 'longstr'):
            params.append((v, 'str'))
            pre.append('len(%s) <= %d' % (v, strlen))
            ctor.append(v)
            checks.append('f.%s == %s and type(f.%s) is str' % (name, v, name))
            rep[v] = default if isinstance(default, str) else 'x'
        elif wtype == 'table':
            assert not has_table
            has_table = True
            if with_table:
                params += [('tk', 'int'), ('tkey', 'str'), ('tval', 'int')]
                pre += ['0 <= tk <= 2', 'len(tkey) <= 1', '-2**63 <= tval < 2**63']
                ctor.append('mk_table(tk, tkey, tval)')
                checks.append('table_eq(f.%s, tk, tkey, tval)' % name)
                rep.update({'tk': 2, 'tkey': 'k', 'tval': 1000})
            else:
                ctor.append('None')
                checks.append('isinstance(f.%s, dict) and len(f.%s) == 0' % (name, name))
        else:
            raise AssertionError(wtype)
    return params, pre, ctor, checks, rep


def safe(name):
    return name.replace('.', '_').lower()
