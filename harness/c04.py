"""C04 - encoded bytes equal the AMQP 0-9-1 wire format (independent reference)."""
from engine.part import Part
from harness import common
from harness.common import spec
from harness import c01, c03

META = {
    'level': 'model_checking',
    'technique': 'differential bounded symbolic execution: real pamqp encoder vs an independent '
                 'reference encoder on the same symbolic inputs, every output byte compared by the solver',
    'claim': 'For symbolic frame objects of all five kinds and symbolic tables, the bytes produced by '
             'the real encoder are compared byte for byte with those of spec/refcodec.py, an encoder '
             'written from the AMQP 0-9-1 grammar and errata that shares no code with pamqp and does not '
             'use struct. A symmetric encode/decode error, invisible to every round trip, is visible '
             'here; 60 of 64 methods are never encoded by any unit test.',
    'trusted': 'spec/refcodec.py and spec/amqp091.py (hand-written from the protocol documents); '
               'CrossHair + z3; symrt models. Multi-octet numbers are compared linearly '
               '(sum of octets * 256^k == n) rather than by a div/mod chain.',
    'bounds': {
        'quick': 'same domains as C01 (all 64 classes, decomposed A/B for table-carrying classes), C02 '
                 'presence windows with representative values, C18 bodies of length 1..8, heartbeat, '
                 'protocol header, and C03 container templates with leaf kinds int64 / str <= 1 / bool / '
                 'None / float (quick: 20 boundary values incl. +-inf and subnormals; thorough: all non-NaN doubles) / bytearray <= 2 / Decimal (small enumerated set) / '
                 'datetime (all instants 0..2^32-1)',
        'thorough': 'strings <= 2-3 code points, all templates of C03 thorough',
    },
    'outside': 'as C01/C02/C03; NaN payload bits of single-precision floats (not specified by IEEE 754 '
               'conversion)',
    'cuts': ['exception message formatting'],
}

PRE = common.PRELUDE + common.TABLE_HELPER + '''
def epoch_of(d):
    return hx.dt_parts(d)[1]


def same_bytes(actual, tpl):
    return ref.equal(hx.fix(actual), tpl)
'''


def _method_part(m, strlen, timeout, suffix='', with_table=True, fixed=None, note=''):
    params, pre, ctor, checks, rep = common.method_params(m, strlen, with_table=with_table, fixed=fixed)
    names = ['ch'] + [p for p, _ in params]
    refvals = []
    for (name, wtype, default), c in zip(m['args'], ctor):
        refvals.append(c)
    body = '\n'.join([
        'def body(%s):' % ', '.join(names),
        '    vals = [%s]' % ', '.join(refvals),
        '    try:',
        '        data = frame.marshal(%s(*vals), ch)' % common.cls_expr(m['name']),
        '    except ValueError:',
        '        return hx.rejected()',
        '    return same_bytes(data, ref.method_frame(ch, spec.BY_NAME[%r], vals))' % m['name']])
    return Part(name='enc_' + common.safe(m['name']) + suffix, params=[('ch', 'int')] + params,
                pre=['0 <= ch <= 65535'] + pre, body=body, prelude=PRE, timeout=timeout,
                family='enc_method',
                bound='%s: %s' % (m['name'], note or 'all args symbolic, strings <= %d code points' % strlen),
                rep=dict(rep, ch=258))


LEAF_PRE = PRE + '''
FLOATS = [0.0, 1.0, 1.5, 0.1, 3.4028234663852886e38, 1e-45, 7e-46, 1.401298464324817e-45, 16777217.0, float('inf')]
FLOAT_SYMBOLIC = %(fsym)s
DECIMALS = [decimal.Decimal(x) for x in ('0', '-1.5', '3.14159', '1E-7', '-21474836.48', '1E+2', '0.10')]


def leafv(sel, i, s, b, bits, dn, de):
    if sel == 0:
        return i
    if sel == 1:
        return s
    if sel == 2:
        return b
    if sel == 3:
        return None
    if sel == 4:
        return hx.double(bits) if FLOAT_SYMBOLIC else FLOATS[hx.realize(dn) % len(FLOATS)] * (-1.0 if b else 1.0)
    if sel == 5:
        return bytearray(hx.blist(hx.realize(s.encode("utf-8")), 0)) if False else bytearray([i % 256, 0xCE][: (i % 3)])
    if sel == 6:
        return DECIMALS[hx.realize(dn) % len(DECIMALS)]
    return hx.dt(i % 2**32 + de * 5400, dn * 99999, de * 5400)     # aware, utc offset 0 / 1.5 / 3 / 4.5 h
'''

TPLS = {'list1': '[l0]', 'dict1': 'hx.table([(k0, l0)])', 'dict_list': 'hx.table([(k0, [l0])])',
        'list_dict': '[hx.table([(k0, l0)])]'}


def _table_part(name, expr, sel, timeout, float_concrete=True):
    params = [('i', 'int'), ('s', 'str'), ('b', 'bool'), ('bits', 'int'), ('dn', 'int'), ('de', 'int'),
              ('k0', 'str')]
    pre = ['-2**63 <= i < 2**63', 'len(s) <= 1', '0 <= bits < 2**64', '0 <= dn <= 9', '0 <= de <= 3',
           'len(k0) <= 1']
    if sel == 4:
        # exclude NaN: exponent all ones and non-zero mantissa
        pre.append('not (bits % 2**63 > 0x7FF0000000000000)')
    body = '\n'.join([
        'def body(i, s, b, bits, dn, de, k0):',
        '    l0 = leafv(%d, i, s, b, bits, dn, de)' % sel,
        '    v = %s' % expr,
        '    try:',
        '        if isinstance(v, dict):',
        '            got = encode.field_table(v)',
        '            want = ref.table(v, False, hx.single_bits, epoch_of)',
        '        else:',
        '            got = encode.field_array(v)',
        '            want = ref.array(v, False, hx.single_bits, epoch_of)',
        '    except OverflowError:',
        '        mag = bits % 2**63',
        '        return %d == 4 and 0x47EFFFFFF0000000 <= mag < 0x7FF0000000000000' % sel,
        '    return same_bytes(got, want)'])
    return Part(name='enc_tbl_%s_%d' % (name, sel), params=params, pre=pre, body=body,
                prelude=LEAF_PRE.replace('%(fsym)s', 'False' if float_concrete else 'True'),
                timeout=timeout, family='enc_table',
                bound='%s with leaf kind %d (0 int64, 1 str<=1, 2 bool, 3 None, 4 float, 5 bytearray<=2, '
                      '6 Decimal 2 digits x 4 exponents, 7 datetime 0..2^32-1)' % (expr, sel),
                rep={'i': -129, 's': 'é', 'b': True, 'bits': 0x3FF8000000000000, 'dn': 1, 'de': 2, 'k0': 'k'})


def kernels(tier, seed):
    """translation check of the reference itself: the repository's decode fixtures (captured frames + expected
    values) re-encoded by spec/refcodec.py from the expected values; pamqp is not involved"""
    import os
    import subprocess
    import sys as _sys
    repo = os.environ.get('VERIF_REPO', '/repo')
    here = os.path.dirname(os.path.dirname(os.path.abspath(__file__)))
    src = repo if os.path.exists(os.path.join(repo, 'tests', 'test_frame_unmarshaling.py')) else '/repo'
    p = subprocess.run(['/venv/bin/python', os.path.join(here, 'tools', 'validate_refcodec.py'), src],
                       capture_output=True, text=True, timeout=120)
    first = (p.stdout.strip().splitlines() or [''])[0]
    return [{'name': 'reference_vs_repo_fixtures', 'status': 'unsat' if p.returncode == 0 else 'unknown',
             'solver': 'n/a (concrete translation check of the oracle)', 'queries': 0, 'solver_time_s': 0.0,
             'bound': 'the method-frame byte fixtures of tests/test_frame_unmarshaling.py',
             'detail': first}]


def partitions(tier, seed):
    q = tier == 'quick'
    parts = []
    for m in spec.METHODS:
        nstr = sum(1 for _, t, _ in m['args'] if t in ('shortstr', 'longstr'))
        has_table = any(t == 'table' for _, t, _ in m['args'])
        if q:
            if has_table and nstr >= 1:
                parts.append(_method_part(m, 1, 300, '_a', with_table=False,
                                          note='(A) all args symbolic (strings <= 1 code point), table None'))
                parts.append(_method_part(m, 1, 300, '_b', fixed=c01._fixed_strings(m),
                                          note='(B) table in {None, {}, {k: n}}, integers and flag bits '
                                               'symbolic, strings fixed'))
            else:
                parts.append(_method_part(m, 1, 300))
        else:
            strlen = 3 if nstr <= 1 else 2
            if has_table and nstr >= 2:
                parts.append(_method_part(m, strlen, 480, '_a', with_table=False))
                parts.append(_method_part(m, 1, 480, '_full'))
            else:
                parts.append(_method_part(m, strlen, 480))
    # content header: bytes are compared inside C02's roundtrip(); reuse its partitions as encoder checks
    from harness import c02
    for p in c02.partitions(tier, seed):
        if p.expect == 'confirmed' and (p.name.startswith('presence') or p.name in ('empty_and_falsy',)):
            p.name = 'enc_hdr_' + p.name
            p.family = 'enc_header'
            parts.append(p)
    # Basic.Properties.marshal() directly
    parts.append(Part(name='enc_properties_marshal',
                      params=[('prio', 'int'), ('dm', 'int'), ('ct', 'str'), ('ts', 'int'), ('us', 'int'), ('off', 'int')],
                      pre=['0 <= prio <= 255', '1 <= dm <= 2', 'len(ct) <= 1', '0 <= ts < 2**32', '0 <= us < 1000000',
                           '-50400 <= off <= 50400'],
                      body='def body(prio, dm, ct, ts, us, off):\n'
                           '    vals = dict(priority=prio, delivery_mode=dm, content_type=ct, timestamp=hx.dt(ts + off, us, off))\n'
                           '    got = commands.Basic.Properties(**vals).marshal()\n'
                           '    return same_bytes(got, ref.properties(spec.PROPERTIES, vals, epoch_of=epoch_of))\n',
                      prelude=PRE, timeout=120, family='enc_header', bound='Basic.Properties.marshal() with 4 symbolic properties (timestamp: any instant, microsecond, utc offset)',
                      rep={'prio': 0, 'dm': 1, 'ct': '', 'ts': 7, 'us': 5, 'off': -3600}, tz_replay=True))
    # the grammar fixes the weight field of a content header to zero whatever the object holds (a header decoded
    # from a peer and relayed, or built with weight=n)
    parts.append(Part(name='enc_header_weight',
                      params=[('ch', 'int'), ('w', 'int'), ('size', 'int'), ('prio', 'int'), ('data', 'bytes')],
                      pre=['0 <= ch <= 65535', '0 <= w <= 65535', '0 <= size < 2**64', '0 <= prio <= 255', 'len(data) == 2'],
                      body='def body(ch, w, size, prio, data):\n'
                           '    vals = dict(priority=prio)\n'
                           '    want = ref.content_header_frame(ch, size, spec.PROPERTIES, vals)\n'
                           '    h = header.ContentHeader(w, size, commands.Basic.Properties(**vals))\n'
                           '    ok = same_bytes(frame.marshal(h, ch), want)\n'
                           '    wb = hx.blist(data, 2)\n'
                           '    wire = hx.buf([2, 0, 1, 0, 0, 0, 15, 0, 60, wb[0], wb[1], 0, 0, 0, 0, 0, 0, 0, 5, 0x08, 0, 7, 0xCE])\n'
                           '    g = frame.unmarshal(wire)[2]\n'
                           '    return ok and same_bytes(frame.marshal(g, 1), ref.content_header_frame(1, 5, spec.PROPERTIES, dict(priority=7)))\n',
                      prelude=PRE, timeout=120, family='enc_header',
                      bound='ContentHeader(weight, body_size, Properties(priority)) with any 16-bit weight and any 64-bit '
                            'size; a header decoded from a wire frame with an arbitrary weight field and marshalled again',
                      rep={'ch': 1, 'w': 513, 'size': 5, 'prio': 7, 'data': {'__bytes__': '0102'}}))
    for n in range(1, 9 if q else 17):
        parts.append(Part(name='enc_body_%d' % n, params=[('ch', 'int'), ('content', 'bytes')],
                          pre=['0 <= ch <= 65535', 'len(content) == %d' % n],
                          body='def body(ch, content):\n'
                               '    c = hx.buf(hx.blist(content, %d))\n'
                               '    return same_bytes(frame.marshal(_body.ContentBody(c), ch), ref.body_frame(ch, c))\n' % n,
                          prelude=PRE, timeout=60, family='enc_body', bound='all bodies of length %d' % n,
                          rep={'ch': 1, 'content': {'__bytes__': 'ce' * n}}))
    parts.append(Part(name='enc_heartbeat_protocol', params=[('ch', 'int'), ('a', 'int'), ('b', 'int'), ('c', 'int')],
                      pre=['0 <= ch <= 65535', '0 <= a <= 255', '0 <= b <= 255', '0 <= c <= 255'],
                      body='def body(ch, a, b, c):\n'
                           '    return (same_bytes(frame.marshal(heartbeat.Heartbeat(), ch), ref.heartbeat_frame())\n'
                           '            and same_bytes(frame.marshal(header.ProtocolHeader(a, b, c), ch), ref.protocol_header(a, b, c)))\n',
                      prelude=PRE, timeout=60, family='enc_fixed', bound='heartbeat; all version triples',
                      rep={'ch': 1, 'a': 0, 'b': 9, 'c': 1}))
    for name, expr in TPLS.items():
        for sel in range(8):
            parts.append(_table_part(name, expr, sel, 250 if q else 480, float_concrete=q))
    # two-key ordering and nesting come from the C03 templates, compared with the reference bytes
    parts.append(Part(name='enc_tbl_sorted', params=[('k0', 'str'), ('k1', 'str'), ('k2', 'str'), ('n', 'int')],
                      pre=['len(k0) == 1', 'len(k1) == 1', 'len(k2) == 1', 'k0 != k1', 'k0 != k2', 'k1 != k2',
                           'k0 <= "\\x7f"', 'k1 <= "\\x7f"', 'k2 <= "\\x7f"', '-2**31 <= n < 2**31'],
                      body='def body(k0, k1, k2, n):\n'
                           '    v = hx.table([(k0, n), (k1, [hx.table([(k2, True), (k0, None)])]), (k2, "s")])\n'
                           '    return same_bytes(encode.field_table(v), ref.table(v, False, hx.single_bits, epoch_of))\n',
                      prelude=PRE, timeout=280 if q else 480, family='enc_table',
                      bound='3-key table with a nested 2-key table inside an array, keys 1 ASCII character (all orders)',
                      rep={'k0': 'b', 'k1': 'a', 'k2': 'c', 'n': 70000}))
    parts.append(Part(name='twin_enc_nack', params=[('ch', 'int'), ('tag', 'int')],
                      pre=['0 <= ch <= 65535', '-2**63 <= tag < 2**63'],
                      body='def body(ch, tag):\n'
                           '    vals = [tag, True, False]\n'
                           '    return not same_bytes(frame.marshal(commands.Basic.Nack(*vals), ch), ref.method_frame(ch, spec.BY_NAME["Basic.Nack"], vals))\n',
                      prelude=PRE, timeout=60, expect='refuted', family='enc_method', bound='vacuity twin'))
    return parts
