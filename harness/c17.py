"""C17 - reply-code exceptions and protocol constants match the specification."""
import json
import os
import subprocess

from engine import ksmt
from engine.part import Part
from harness import common
from harness.common import spec

META = {
    'level': 'translation_validation',
    'engine': 'ksmt',
    'technique': 'finite-map equivalence query (SMT, unsat = equal) between pamqp.exceptions / '
                 'pamqp.constants and an independent spec table, over a symbolic reply code',
    'claim': 'CLASS_MAPPING and every exception class defined in pamqp.exceptions (extracted by import '
             'and from the AST on every run) are compared with the independently transcribed reply-code '
             'table as finite SMT functions over a symbolic 16-bit code: no missing, extra or differing '
             'entry (value, NAME, soft/hard base, catchable as PAMQPException, exactly one class per '
             'code). Protocol constants are compared the same way.',
    'trusted': 'spec/amqp091.py reply-code and constant tables; z3. Finite domain: the strength is the '
               'independent table, the solver work is trivial.',
    'bounds': 'all reply codes 0..65535, all listed constants',
    'outside': 'documentation strings of the exception classes',
    'cuts': [],
}

EXTRACT = r'''
import ast, inspect, json, sys
root = sys.argv[1]
sys.path.insert(0, root)
from pamqp import exceptions, constants
out = {'mapping': {}, 'classes': {}, 'constants': {}}
def info(c):
    raised = True
    try:
        try:
            raise c()
        except exceptions.PAMQPException:
            pass
    except BaseException:
        raised = False
    return {'cls': c.__name__, 'name': getattr(c, 'name', None), 'value': getattr(c, 'value', None),
            'soft': issubclass(c, exceptions.AMQPSoftError), 'hard': issubclass(c, exceptions.AMQPHardError),
            'amqp_error': issubclass(c, exceptions.AMQPError),
            'base_ok': issubclass(c, exceptions.PAMQPException) and issubclass(c, Exception),
            'catchable': raised}
for code, c in exceptions.CLASS_MAPPING.items():
    out['mapping'][str(code)] = info(c)
for n, c in vars(exceptions).items():
    if inspect.isclass(c) and hasattr(c, 'value') and issubclass(c, BaseException):
        out['classes'].setdefault(str(c.value), []).append(info(c))
for k in ('FRAME_METHOD', 'FRAME_HEADER', 'FRAME_BODY', 'FRAME_HEARTBEAT', 'FRAME_MIN_SIZE', 'FRAME_END',
          'FRAME_END_CHAR', 'FRAME_HEADER_SIZE', 'VERSION', 'AMQP', 'REPLY_SUCCESS'):
    v = getattr(constants, k, '<missing>')
    out['constants'][k] = repr(v)
out['base_chain'] = [issubclass(exceptions.AMQPSoftError, exceptions.AMQPError),
                     issubclass(exceptions.AMQPHardError, exceptions.AMQPError),
                     issubclass(exceptions.AMQPError, exceptions.PAMQPException),
                     issubclass(exceptions.UnmarshalingException, exceptions.PAMQPException),
                     not issubclass(exceptions.AMQPSoftError, exceptions.AMQPHardError),
                     not issubclass(exceptions.AMQPHardError, exceptions.AMQPSoftError)]
tree = ast.parse(open(root + '/pamqp/exceptions.py').read())
amap = None
for node in tree.body:
    if isinstance(node, ast.Assign) and getattr(node.targets[0], 'id', '') == 'CLASS_MAPPING':
        if isinstance(node.value, ast.Dict):
            amap = {}
            for k, v in zip(node.value.keys, node.value.values):
                try:
                    amap[str(ast.literal_eval(k))] = ast.unparse(v)
                except Exception:
                    amap = None
                    break
out['ast_mapping'] = amap      # None: CLASS_MAPPING is not a plain literal (AST view unavailable)
print(json.dumps(out))
'''


def extract(repo):
    p = subprocess.run(['/venv/bin/python', '-c', EXTRACT, repo], capture_output=True, text=True, timeout=60)
    if p.returncode != 0:
        raise RuntimeError('extraction failed: ' + p.stderr[-2000:])
    return json.loads(p.stdout)


def spec_entry(code):
    name, soft = spec.REPLY_CODES[code]
    return {'name': name, 'value': code, 'soft': soft, 'hard': not soft, 'amqp_error': True,
            'base_ok': True, 'catchable': True}


def _fun(name, table):
    body = ksmt.smt_str('<absent>')
    for k in sorted(table, key=int, reverse=True):
        body = '(ite (= c %s) %s %s)' % (k, ksmt.smt_str(table[k]), body)
    return '(define-fun %s ((c Int)) String %s)' % (name, body)


FIELDS = ('name', 'value', 'soft', 'hard', 'amqp_error', 'base_ok', 'catchable')


def kernels(tier, seed):
    repo = os.environ.get('VERIF_REPO', '/repo')
    code = extract(repo)
    enc = lambda v: json.dumps(v, sort_keys=True)
    pre = ['(set-logic ALL)', '(declare-const c Int)', '(assert (and (<= 0 c) (< c 65536)))']
    queries = []
    want = {str(k): spec_entry(k) for k in spec.REPLY_CODES}
    for f in FIELDS:
        pre.append(_fun('map_' + f, {k: enc(v[f]) for k, v in code['mapping'].items()}))
        pre.append(_fun('spec_' + f, {k: enc(v[f]) for k, v in want.items()}))
        queries.append(('mapping_' + f, '(assert (not (= (map_%s c) (spec_%s c))))' % (f, f), ['c']))
    # exactly one class defined per specified value, none for other values, and it is the mapped one
    pre.append(_fun('cls_count', {k: enc(len(v)) for k, v in code['classes'].items()}))
    pre.append(_fun('spec_count', {k: enc(1) for k in want}))
    queries.append(('one_class_per_code', '(assert (not (= (cls_count c) (spec_count c))))', ['c']))
    pre.append(_fun('cls_first', {k: enc(v[0]['cls']) for k, v in code['classes'].items()}))
    pre.append(_fun('map_cls', {k: enc(v['cls']) for k, v in code['mapping'].items()}))
    queries.append(('mapped_class_is_defined_class', '(assert (not (= (cls_first c) (map_cls c))))', ['c']))
    ast_unavailable = code['ast_mapping'] is None
    if not ast_unavailable:
        pre.append(_fun('ast_map', code['ast_mapping']))
        pre.append(_fun('map_cls_raw', {k: v['cls'] for k, v in code['mapping'].items()}))
        queries.append(('ast_mapping_agrees', '(assert (not (= (ast_map c) (map_cls_raw c))))', ['c']))
    # constants: index j over the constant list
    names = sorted(spec.CONSTANTS)
    pre.append(_fun('const_code', {str(j): code['constants'].get(n, '<missing>') for j, n in enumerate(names)}))
    pre.append(_fun('const_spec', {str(j): repr(spec.CONSTANTS[n]) for j, n in enumerate(names)}))
    queries.append(('constants', '(assert (not (= (const_code c) (const_spec c))))', ['c']))
    pre.append(_fun('chain', {str(j): enc(v) for j, v in enumerate(code['base_chain'])}))
    queries.append(('base_chain', '(assert (and (not (= (chain c) "<absent>")) (not (= (chain c) "true"))))', ['c']))
    solvers = ['z3-5.1'] if tier == 'quick' else [s for s in ('z3-5.1', 'z3-4.8', 'cvc5') if s in ksmt.available()]
    if 'z3-5.1' not in ksmt.available():
        solvers = ksmt.available()[:1]
    results = []
    for sname in solvers:
        for r in ksmt.run_batch(sname, '\n'.join(pre), queries, timeout_s=60):
            kr = {'name': r['name'] + '@' + sname, 'status': r['status'], 'solver': sname, 'queries': 1,
                  'solver_time_s': r['solver_time_s'], 'bound': 'all reply codes 0..65535', 'detail': ''}
            if r['status'] == 'sat':
                c = ksmt.parse_smt_int(r['values'].get('c', '0'))
                kr['detail'] = 'code/position %d, query %s' % (c, r['name'])
                kr['replay_part'] = _witness_part()
                kr['replay_args'] = {'code': c, 'query': r['name']}
            elif r['status'] != 'unsat':
                kr['detail'] = r['raw'][:300]
            results.append(kr)
    if ast_unavailable:
        results.append({'name': 'ast_mapping_agrees', 'status': 'unknown', 'solver': 'ast', 'queries': 0,
                        'solver_time_s': 0, 'detail': 'CLASS_MAPPING is not a dict literal: the AST view is '
                        'unavailable (the imported mapping is still compared)'})
    return results


WITNESS_BODY = '''
def body(code, query):
    import os
    from harness import c17
    got = c17.extract(os.environ.get('VERIF_REPO', '/repo'))
    if query == 'constants':
        names = sorted(spec.CONSTANTS)
        n = names[code]
        return got['constants'].get(n) == repr(spec.CONSTANTS[n])
    if query == 'base_chain':
        return all(got['base_chain'])
    k = str(code)
    if query == 'one_class_per_code':
        return len(got['classes'].get(k, [])) == (1 if code in spec.REPLY_CODES else 0)
    if query == 'mapped_class_is_defined_class':
        a = got['classes'].get(k, [{}])[0].get('cls')
        b = got['mapping'].get(k, {}).get('cls')
        return a == b
    if query == 'ast_mapping_agrees':
        if got['ast_mapping'] is None:
            return True
        return got['ast_mapping'].get(k) == got['mapping'].get(k, {}).get('cls')
    f = query[len('mapping_'):]
    m = got['mapping'].get(k)
    if code not in spec.REPLY_CODES:
        return m is None
    return m is not None and m[f] == c17.spec_entry(code)[f]
'''


def _witness_part():
    return Part(name='replycode_witness', params=[('code', 'int'), ('query', 'str')], pre=[],
                body=WITNESS_BODY, prelude=common.PRELUDE, timeout=60, family='replycode_witness',
                bound='one reply code / constant')


def partitions(tier, seed):
    # finite catalogue: decided by the equivalence queries in kernels(); in addition every entry is
    # re-checked concretely on the real module through the witness harness (traces validated against the
    # implementation); nothing here is explored symbolically
    parts = []
    queries = ('mapping_name', 'mapping_value', 'mapping_soft', 'mapping_hard', 'mapping_amqp_error',
               'mapping_base_ok', 'mapping_catchable', 'one_class_per_code', 'mapped_class_is_defined_class',
               'ast_mapping_agrees')
    body = WITNESS_BODY.replace('def body(code, query):', 'def check(code, query):') + '''

def body(code):
    ok = True
    for q in %r:
        ok = ok and check(code, q)
    return ok
''' % (queries,)
    for code in sorted(spec.REPLY_CODES) + [200, 310, 314, 401, 500, 542]:
        parts.append(Part(name='entry_%d' % code, params=[('code', 'int')], pre=[], body=body,
                          prelude=common.PRELUDE, timeout=60, family='reply_code_entry',
                          bound='reply code %d, all attributes (concrete re-check)' % code,
                          rep={'code': code}, concrete_only=True))
    cbody = WITNESS_BODY.replace('def body(code, query):', 'def check(code, query):') + '''

def body(j):
    return check(j, "constants") and check(0, "base_chain")
'''
    for j in range(len(spec.CONSTANTS)):
        parts.append(Part(name='constant_%d' % j, params=[('j', 'int')], pre=[], body=cbody,
                          prelude=common.PRELUDE, timeout=60, family='constant_entry',
                          bound='constant %s (concrete re-check)' % sorted(spec.CONSTANTS)[j],
                          rep={'j': j}, concrete_only=True))
    return parts


def evidence_extra(tier, kernel_results, results):
    ok = [k for k in kernel_results if k['status'] == 'unsat']
    return {'programs': len(spec.REPLY_CODES) + len(spec.CONSTANTS),
            'disagreements_checked': len(kernel_results),
            'obligations': len(kernel_results), 'discharged': len(ok),
            'explanation': 'programs = 18 reply-code classes + 11 constants compared with the independent '
                           'table; disagreements_checked = equivalence queries discharged (unsat)'}
