"""Input families of untrusted bytes shared by C06 (envelope clause), C08 (work budget) and C09
(exception type).  Each family is instantiated with a property-specific judgement `judge`.

Families
  raw<n>        frame.unmarshal on an arbitrary buffer of n bytes
  m<cls><k>     valid method-frame envelope of class cls, payload = index + k arbitrary bytes
  mt<cls><tag>  valid envelope, valid argument prefix, table argument =
                [len: 4 arbitrary][key len 1][key: arbitrary][tag][4 arbitrary bytes] + valid suffix
  hdr<k>        content-header envelope: 12 arbitrary fixed-part bytes + k arbitrary property bytes
  hdrt<tag>     content header with only `headers` present, table bytes as in mt
  ft/fa/ev<n>   decode.field_table / field_array / embedded_value on arbitrary n bytes (C08 only)
"""
from engine.part import Part
from harness import common
from harness.common import spec

FUEL_FACTOR = 4
FUEL_SLACK = 64

JUDGE = {
    # returns True when the property holds for this run
    'c08': '''
def judge(call, d):
    """C08: only the work budget matters (hx.run fails the path when it trips)."""
    hx.fuel(%d * len(d) + %d)
    try:
        r = call(d)
    except Exception:
        return True
    return memory_ok(r, d)


def memory_ok(r, d):
    if isinstance(r, tuple) and len(r) == 2 and isinstance(r[1], (list, dict)):
        return len(r[1]) <= len(d)
    return True
''' % (FUEL_FACTOR, FUEL_SLACK),
    'c09': '''
def judge(call, d):
    """C09: returns a frame or raises UnmarshalingException, nothing else."""
    try:
        r = call(d)
    except exceptions.UnmarshalingException:
        return True
    return isinstance(r, tuple) and len(r) == 3
''',
    'c06': '''
def judge(call, d):
    """C06 envelope clause: whenever decoding succeeds, kind/channel/count are those of the 7-byte
    header, the last consumed byte is the frame end octet, count <= len; a protocol header is
    returned only for input starting with 'AMQP', consuming 8 bytes."""
    try:
        count, chan, f = call(d)
    except Exception:
        return True      # failures are C07/C09's subject
    n = len(d)
    if type(f) is header.ProtocolHeader:
        return (n >= 8 and d[0] == 65 and d[1] == 77 and d[2] == 81 and d[3] == 80
                and count == 8 and chan == 0)
    if n < 8 or count > n or count < 8:
        return False
    ftype = d[0]
    fchan = d[1] * 256 + d[2]
    fsize = ((d[3] * 256 + d[4]) * 256 + d[5]) * 256 + d[6]
    if count != fsize + 8 or chan != fchan or d[count - 1] != 0xCE:
        return False
    if ftype == 1:
        return isinstance(f, base.Frame)
    if ftype == 2:
        return type(f) is header.ContentHeader
    if ftype == 3:
        return type(f) is _body.ContentBody
    if ftype == 8:
        return type(f) is heartbeat.Heartbeat and fsize == 0
    return False
''',
}

HELPERS = '''
def envelope(ftype, ch, payload):
    n = len(payload)
    return hx.buf([ftype, ch // 256, ch %% 256, (n >> 24) & 255, (n >> 16) & 255, (n >> 8) & 255, n & 255]
                  + list(payload) + [0xCE])


def be(n, width):
    return [(n >> (8 * (width - 1 - i))) & 255 for i in range(width)]
''' .replace('%%', '%')

REST_LEN = {'t': 1, 'b': 1, 'B': 1, 's': 2, 'u': 2, 'V': 1, 'nul': 1, 'unk': 1,
            'l': 8, 'L': 8, 'd': 8, 'T': 8, 'D': 1}   # default 4
# Decimal arithmetic is realized (enumerated) by CrossHair: only the scale octet is symbolic, the
# unscaled value is fixed
REST_SUFFIX = {'D': [0xFF, 0xFF, 0xFB, 0x2E]}


def rest_len(tagname):
    return REST_LEN.get(tagname, 4)


TAGS = [('t', 't'), ('b', 'b'), ('B', 'B'), ('s', 's'), ('u', 'u'), ('I', 'I'), ('i', 'i'), ('l', 'l'),
        ('L', 'L'), ('f', 'f'), ('d', 'd'), ('D', 'D'), ('S', 'S'), ('A', 'A'), ('T', 'T'), ('F', 'F'),
        ('V', 'V'), ('\x00', 'nul'), ('x', 'x'), ('?', 'unk')]


def _minimal_arg_bytes(wtype):
    return {'octet': [0], 'short': [0, 0], 'long': [0] * 4, 'longlong': [0] * 8, 'shortstr': [0],
            'longstr': [0] * 4, 'table': [0] * 4, 'timestamp': [0] * 8}[wtype]


def prefix_suffix_for_table(m):
    """valid minimal argument bytes before and after the (single) table argument of method m"""
    pre, suf, seen, bits = [], [], False, 0
    for (_, wtype, _) in m['args']:
        tgt = suf if seen else pre
        if wtype == 'bit':
            bits += 1
            continue
        if bits:
            tgt.append(0)
            bits = 0
        if wtype == 'table':
            seen = True
            continue
        tgt.extend(_minimal_arg_bytes(wtype))
    if bits:
        (suf if seen else pre).append(0)
    return pre, suf


def parts_for(mode, tier, raw_max, m_extra, hdr_extra, table_classes, table_tags, timeout, dec_max=None):
    judge = JUDGE[mode]
    prelude = common.PRELUDE + HELPERS + judge
    parts = []
    q = tier == 'quick'

    # ---- raw buffers
    for n in range(0, raw_max + 1):
        parts.append(Part(
            name='raw%d' % n, params=[('data', 'bytes')], pre=['len(data) == %d' % n],
            body='def body(data):\n    d = hx.buf(hx.blist(data, %d))\n    return judge(frame.unmarshal, d)\n' % n,
            prelude=prelude, timeout=timeout, family='raw_buffer',
            bound='frame.unmarshal on every byte string of length %d' % n,
            rep={'data': {'__bytes__': (bytes([1, 0, 1, 0, 0, 0, max(n - 8, 0)]) + b'\x00\x3c\x00\x50' + bytes(16))[:max(n - 1, 0)].hex() + ('ce' if n else '')}}))

    # ---- method envelopes with arbitrary argument bytes
    for m in spec.METHODS:
        for k in m_extra:
            body = ('def body(ch, data):\n'
                    '    d = envelope(1, ch, be(%d, 4) + hx.blist(data, %d))\n'
                    '    return judge(frame.unmarshal, d)\n' % (m['index'], k))
            parts.append(Part(
                name='m_%s_%d' % (common.safe(m['name']), k),
                params=[('ch', 'int'), ('data', 'bytes')],
                pre=['0 <= ch <= 65535', 'len(data) == %d' % k], body=body, prelude=prelude,
                timeout=timeout, family='method_envelope',
                bound='%s: valid envelope, %d arbitrary argument bytes' % (m['name'], k),
                rep={'ch': 1, 'data': {'__bytes__': '00' * k}}))

    # ---- method envelopes with a structured table argument
    for cname in table_classes:
        m = spec.BY_NAME[cname]
        pre_b, suf_b = prefix_suffix_for_table(m)
        for tagch, tagname in table_tags:
            rl = rest_len(tagname)
            body = ('def body(ch, ln, key, rest):\n'
                    '    tbl = hx.blist(ln, 4) + [1, key, %d] + hx.blist(rest, %d) + %r\n'
                    '    d = envelope(1, ch, be(%d, 4) + %r + tbl + %r)\n'
                    '    return judge(frame.unmarshal, d)\n'
                    % (ord(tagch), rl, REST_SUFFIX.get(tagname, []), m['index'], pre_b, suf_b))
            parts.append(Part(
                name='mt_%s_%s' % (common.safe(cname), tagname),
                params=[('ch', 'int'), ('ln', 'bytes'), ('key', 'int'), ('rest', 'bytes')],
                pre=['0 <= ch <= 65535', 'len(ln) == 4', '0 <= key <= 255', 'len(rest) == %d' % rl],
                body=body, prelude=prelude, timeout=timeout, family='method_table_envelope',
                bound='%s: table = [4 arbitrary length bytes][key len 1][arbitrary key byte][tag %r]'
                      '[%d arbitrary bytes], other arguments minimal' % (cname, tagch, rl),
                rep={'ch': 1, 'ln': {'__bytes__': '%08x' % (3 + rl + len(REST_SUFFIX.get(tagname, [])))}, 'key': 107,
                     'rest': {'__bytes__': '00' * rl}}))

    # ---- content headers
    for k in hdr_extra:
        body = ('def body(ch, fixed, data):\n'
                '    d = envelope(2, ch, hx.blist(fixed, 12) + hx.blist(data, %d))\n'
                '    return judge(frame.unmarshal, d)\n' % k)
        # with 4+ bytes after the fixed part the 14 presence bits multiply the paths: one partition
        # per value of the top four presence bits
        splits = [None] if k < 4 else list(range(16))
        for j in splits:
            parts.append(Part(
                name='hdr_%d' % k + ('' if j is None else '_f%x' % j),
                params=[('ch', 'int'), ('fixed', 'bytes'), ('data', 'bytes')],
                pre=['0 <= ch <= 65535', 'len(fixed) == 12', 'len(data) == %d' % k]
                    + ([] if j is None else ['data[0] // 16 == %d' % j]),
                body=body, prelude=prelude, timeout=timeout, family='header_envelope',
                bound='content header: 12 arbitrary fixed-part bytes + %d arbitrary flag/property bytes%s'
                      % (k, '' if j is None else ' (top presence nibble %x)' % j),
                rep={'ch': 1, 'fixed': {'__bytes__': '003c0000' + '00' * 8},
                     'data': {'__bytes__': (('%x0' % (j or 0)) + '00' * k)[:2 * k]}}))
    for tagch, tagname in table_tags:
        rl = rest_len(tagname)
        body = ('def body(ch, ln, key, rest):\n'
                '    tbl = hx.blist(ln, 4) + [1, key, %d] + hx.blist(rest, %d) + %r\n'
                '    d = envelope(2, ch, [0, 60, 0, 0] + [0] * 8 + [0x20, 0x00] + tbl)\n'
                '    return judge(frame.unmarshal, d)\n' % (ord(tagch), rl, REST_SUFFIX.get(tagname, [])))
        parts.append(Part(
            name='hdrt_%s' % tagname,
            params=[('ch', 'int'), ('ln', 'bytes'), ('key', 'int'), ('rest', 'bytes')],
            pre=['0 <= ch <= 65535', 'len(ln) == 4', '0 <= key <= 255', 'len(rest) == %d' % rl],
            body=body, prelude=prelude, timeout=timeout, family='header_table_envelope',
            bound='content header with only the headers table present; table bytes as in mt_*, tag %r' % tagch,
            rep={'ch': 1, 'ln': {'__bytes__': '%08x' % (3 + rl + len(REST_SUFFIX.get(tagname, [])))}, 'key': 107,
                 'rest': {'__bytes__': '00' * rl}}))

    for tagch, tagname in table_tags:
        # the payload ends right after the type tag while the table length announces more
        body = ('def body(ch, ln, key):\n'
                '    tbl = hx.blist(ln, 4) + [1, key, %d]\n'
                '    d = envelope(2, ch, [0, 60, 0, 0] + [0] * 8 + [0x20, 0x00] + tbl)\n'
                '    return judge(frame.unmarshal, d)\n' % ord(tagch))
        parts.append(Part(
            name='hdrt0_%s' % tagname, params=[('ch', 'int'), ('ln', 'bytes'), ('key', 'int')],
            pre=['0 <= ch <= 65535', 'len(ln) == 4', '0 <= key <= 255'],
            body=body, prelude=prelude, timeout=timeout, family='header_table_envelope',
            bound='content header whose headers table ends right after tag %r (arbitrary declared length)' % tagch,
            rep={'ch': 1, 'ln': {'__bytes__': '00000009'}, 'key': 107}))
    parts.append(Part(
        name='hdr_ts', params=[('ch', 'int'), ('ts', 'bytes')],
        pre=['0 <= ch <= 65535', 'len(ts) == 8'],
        body=('def body(ch, ts):\n'
              '    d = envelope(2, ch, [0, 60, 0, 0] + [0] * 8 + [0x00, 0x40] + hx.blist(ts, 8))\n'
              '    return judge(frame.unmarshal, d)\n'),
        prelude=prelude, timeout=timeout, family='header_envelope',
        bound='content header with only the timestamp property present: all 2^64 timestamp values',
        rep={'ch': 1, 'ts': {'__bytes__': 'ffffffffffffffff'}}))

    # ---- bare decoders (C08)
    if dec_max:
        for fn, label, top in (('field_table', 'ft', dec_max[0]), ('field_array', 'fa', dec_max[1]),
                               ('embedded_value', 'ev', dec_max[2])):
            for n in range(0, top + 1):
                parts.append(Part(
                    name='%s%d' % (label, n), params=[('data', 'bytes')], pre=['len(data) == %d' % n],
                    body='def body(data):\n    d = hx.buf(hx.blist(data, %d))\n    return judge(decode.%s, d)\n' % (n, fn),
                    prelude=prelude, timeout=timeout, family='bare_decoder',
                    bound='decode.%s on every byte string of length %d' % (fn, n),
                    rep={'data': {'__bytes__': ('00000000' + '00' * 8)[:2 * n]}}))
    return parts
