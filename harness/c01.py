"""C01 - every method frame survives encode-then-decode unchanged (DESIGN.md section 4)."""
from engine.part import Part
from harness import common
from harness.common import spec

META = {
    'level': 'model_checking',
    'claim': 'Bounded symbolic round trip of all 64 method classes through the real frame.marshal / '
             'frame.unmarshal: every feasible path within the bounds is explored and the assertion '
             'holds on each (CrossHair "Confirmed over all paths"), which covers full integer ranges, '
             'all channels and all flag combinations that unit tests sample at one point each.',
    'trusted': 'CrossHair + z3 soundness; symrt models (struct, CBytes, bitwise, hash-free dict) - '
               'self-tested against CPython on every run; independent spec table spec/amqp091.py; '
               'bounds on string length and table shape as stated in the evidence.',
    'bounds': {
        'quick': 'all 64 method classes; channel 0..65535; octet/short/long full unsigned ranges; '
                 'longlong full signed range; every bit argument symbolic (all 2^k combinations); '
                 'short/long strings <= 1 code point (any code point); table argument in '
                 '{None, {}, {k: n}} with k <= 1 code point and n any 64-bit integer; plus concrete '
                 'length-prefix strings X*n for n in {127, 128, 255}, X one code point of each UTF-8 '
                 'length class, channel symbolic',
        'thorough': 'as quick with strings <= 2 code points (<= 3 for single-string classes) and '
                    'length-prefix strings X*n for n in {63, 64, 127, 128, 254, 255, 256}',
    },
    'outside': 'strings longer than the bound other than the listed X*n samples; table contents beyond one integer '
               'entry (table values are C03)',
    'cuts': ['exception message formatting', 'LOGGER calls'],
    'assumptions': ['"accepted" = constructor and marshal raise no ValueError; wire-range '
                    'preconditions on integer arguments come from the specification table'],
}


def _body(m, ctor, checks):
    cls = common.cls_expr(m['name'])
    names = ', '.join(['ch'] + [p for p in _body.params])
    lines = ['def body(%s):' % names,
             '    try:',
             '        m = %s(%s)' % (cls, ', '.join(ctor)),
             '        data = frame.marshal(m, ch)',
             '    except ValueError:',
             '        return hx.rejected()',
             '    data = hx.fix(data)',
             '    c, chan, f = frame.unmarshal(data)',
             '    t, pc, sz = frame.frame_parts(data)',
             '    ok = (c == len(data) and chan == ch and type(f) is %s' % cls,
             '          and t == 1 and pc == ch and sz + 8 == len(data))']
    for chk in checks:
        lines.append('    ok = ok and %s' % chk)
    lines.append('    return ok')
    return '\n'.join(lines)


def _part(m, strlen, timeout, suffix='', with_table=True, fixed=None, note=''):
    params, pre, ctor, checks, rep = common.method_params(m, strlen, with_table=with_table,
                                                          fixed=fixed)
    _body.params = [p for p, _ in params]
    rep = dict(rep, ch=1)
    return Part(
        name='rt_' + common.safe(m['name']) + suffix,
        params=[('ch', 'int')] + params,
        pre=['0 <= ch <= 65535'] + pre,
        body=_body(m, ctor, checks),
        prelude=common.PRELUDE + common.TABLE_HELPER,
        timeout=timeout, family='rt_method',
        bound='%s: %s' % (m['name'], note or ('all args symbolic, strings <= %d code points' % strlen)),
        rep=rep)


def _fixed_strings(m):
    out = {}
    for (name, wtype, default) in m['args']:
        if wtype in ('shortstr', 'longstr'):
            out[name] = default if isinstance(default, str) and default != '' else 'x'
            if m['name'] in spec.CONSTRAINTS:
                for (arg, kind, param) in spec.CONSTRAINTS[m['name']]:
                    if arg == name and kind == 'fixed':
                        out[name] = param
    return out


UTF8_CLASSES = [('u1', 'a'), ('u2', '\u00e9'), ('u3', '\u20ac'), ('u4', '\U0001f600')]


def _lenprefix_parts(tier):
    """Length-prefix arithmetic at 63/64/127/128/254/255/256: concrete strings X*n (X one
    representative code point per UTF-8 length class) through a shortstr and a longstr argument,
    channel symbolic.  These are sample lengths, not a claim over all long strings."""
    out = []
    ns = (127, 128, 255) if tier == 'quick' else (63, 64, 127, 128, 254, 255, 256)
    targets = [('Basic.Publish', 'routing_key'), ('Connection.StartOk', 'response')]
    if tier != 'quick':
        targets += [('Queue.Declare', 'queue'), ('Basic.Deliver', 'consumer_tag')]
    for cname, arg in targets:
        m = spec.BY_NAME[cname]
        wt = dict((a, t) for a, t, _ in m['args'])[arg]
        for n in ns:
            ctor, checks = [], []
            for (name, wtype, default) in m['args']:
                if name == arg:
                    ctor.append('s')
                    checks.append('f.%s == s' % name)
                elif wtype == 'table':
                    ctor.append('None')
                elif wtype == 'bit':
                    ctor.append('False')
                elif wtype in ('shortstr', 'longstr'):
                    ctor.append(repr(default if isinstance(default, str) else 'x'))
                else:
                    ctor.append(repr(default if isinstance(default, int) else 1))
            cls = common.cls_expr(cname)
            for cid, ch_ in UTF8_CLASSES:
                nbytes = n * int(cid[1])
                fits = nbytes <= (255 if wt == 'shortstr' else 2 ** 32 - 1)
                body = '\n'.join([
                    'def body(ch):',
                    '    s = %r * %d' % (ch_, n),
                    '    try:',
                    '        m = %s(%s)' % (cls, ', '.join(ctor)),
                    '        data = frame.marshal(m, ch)',
                    '    except ValueError:',
                    '        return hx.rejected()',
                    '    except struct.error:',
                    '        # %d UTF-8 bytes: %s the length prefix' % (nbytes, 'fits' if fits else 'does not fit'),
                    '        return %s' % ('False' if fits else 'hx.rejected()'),
                    '    data = hx.fix(data)',
                    '    k, chan, f = frame.unmarshal(data)',
                    '    ok = k == len(data) and chan == ch and type(f) is %s' % cls,
                ] + ['    ok = ok and %s' % c for c in checks] + ['    return ok'])
                out.append(Part(
                    name='len_%s_%s_%d_%s' % (common.safe(cname), arg, n, cid),
                    params=[('ch', 'int')],
                    pre=['0 <= ch <= 65535'],
                    body=body, prelude=common.PRELUDE, timeout=60, family='rt_method_lenprefix',
                    bound='%s.%s = %r*%d (%d UTF-8 bytes), channel symbolic' % (cname, arg, ch_, n, nbytes),
                    rep={'ch': 7}))
    return out


def partitions(tier, seed):
    parts = []
    for m in spec.METHODS:
        nstr = sum(1 for _, t, _ in m['args'] if t in ('shortstr', 'longstr'))
        has_table = any(t == 'table' for _, t, _ in m['args'])
        if tier == 'quick':
            if has_table and nstr >= 1:
                # decomposition (DESIGN.md C01): (A) everything but the table symbolic, table None;
                # (B) table + integers + all flag bits symbolic, strings fixed
                parts.append(_part(m, 1, 300, '_a', with_table=False,
                                   note='(A) all args symbolic (strings <= 1 code point), table None'))
                parts.append(_part(m, 1, 300, '_b', fixed=_fixed_strings(m),
                                   note='(B) table in {None, {}, {k: n}}, integers and all flag '
                                        'bits symbolic, strings fixed'))
            else:
                parts.append(_part(m, 1, 300))
        else:
            strlen = 3 if nstr <= 1 else 2
            if has_table and nstr >= 2:
                parts.append(_part(m, strlen, 480, '_a', with_table=False,
                                   note='(A) all args symbolic (strings <= %d code points), table None'
                                        % strlen))
                parts.append(_part(m, 1, 480, '_full',
                                   note='full product, strings <= 1 code point, table in '
                                        '{None, {}, {k: n}}'))
            else:
                parts.append(_part(m, strlen, 480))
    parts += _lenprefix_parts(tier)
    parts.append(Part(
        name='key_samples_queue_declare', params=[('ch', 'int'), ('n', 'int'), ('durable', 'bool')],
        pre=['0 <= ch <= 65535', '-2**63 <= n < 2**63'],
        body='def body(ch, n, durable):\n'
             '    ok = True\n'
             '    for key in ("\\u00e9" * 65, "\\u20ac" * 85, "\\U0001f600" * 63, "a" * 128):\n'
             '        tbl = hx.table([(key, n), ("z" + key[1:], [n])])\n'
             '        m = commands.Queue.Declare(0, "q", False, durable, False, False, False, tbl)\n'
             '        data = hx.fix(frame.marshal(m, ch))\n'
             '        c, chan, f = frame.unmarshal(data)\n'
             '        ok = ok and c == len(data) and chan == ch and f.durable == durable and len(f.arguments) == 2\n'
             '        ok = ok and f.arguments[key] == n and f.arguments["z" + key[1:]] == [n]\n'
             '    return ok\n',
        prelude=common.PRELUDE, timeout=200, family='rt_method_lenprefix',
        bound='Queue.Declare.arguments with field names of <= 128 characters and up to 255 UTF-8 bytes',
        rep={'ch': 1, 'n': -129, 'durable': True}))
    parts.append(Part(
        name='text_samples', params=[('ch', 'int'), ('tag', 'int')],
        pre=['0 <= ch <= 65535', '-2**63 <= tag < 2**63'],
        body='def body(ch, tag):\n'
             '    ok = True\n'
             '    for s in ("\\ufeffabc", "\\ufeff", "a\\ufeff", "\\ufffe", "\\x00", "\\U0001f600\\U0010ffff", "e\\u0301", "\\uffff", ""):\n'
             '        frames = [commands.Connection.Secure(s), commands.Connection.StartOk(None, s, s, s),\n'
             '                  commands.Basic.Deliver(s, tag, False, "ex", s), commands.Connection.Start(0, 9, None, s, s)]\n'
             '        for m in frames:\n'
             '            data = hx.fix(frame.marshal(m, ch))\n'
             '            c, chan, f = frame.unmarshal(data)\n'
             '            ok = ok and c == len(data) and chan == ch and type(f) is type(m)\n'
             '            for k, v in m:\n'
             '                if isinstance(v, str):\n'
             '                    ok = ok and getattr(f, k) == v and type(getattr(f, k)) is str\n'
             '    return ok\n',
        prelude=common.PRELUDE, timeout=200, family='rt_method_lenprefix',
        bound='9 concrete texts (byte-order mark first / alone / last, U+FFFE, NUL, astral, combining) through '
              'every short- and long-string argument of four classes',
        rep={'ch': 1, 'tag': 5}))
    parts.append(Part(
        name='table_values_in_method', params=[('ch', 'int'), ('n', 'int'), ('flag', 'bool')],
        pre=['0 <= ch <= 65535', '-2**63 <= n < 2**63'],
        body='def body(ch, n, flag):\n'
             '    # the table only has to survive inside a method frame; its value kinds are C03\'s subject, a\n'
             '    # cross-section of them (concrete) rides along here with a symbolic integer and flag\n'
             '    vals = [("a", n), ("b", flag), ("c", None), ("d", decimal.Decimal("1E+2")), ("e", decimal.Decimal("-1.50")),\n'
             '            ("f", 1.5), ("g", "x\\u00e9\\U0001f600"), ("h", bytearray(b"\\xce\\x00")), ("i", [n, [flag, None], "s"]),\n'
             '            ("j", hx.table([("k", hx.table([("l", n)]))])), ("m", decimal.Decimal("0.0000001"))]\n'
             '    ok = True\n'
             '    for cls, mk in ((commands.Queue.Declare, lambda t: commands.Queue.Declare(0, "q", False, flag, False, False, False, t)),\n'
             '                    (commands.Connection.StartOk, lambda t: commands.Connection.StartOk(t, "PLAIN", "r", "en_US")),\n'
             '                    (commands.Basic.Consume, lambda t: commands.Basic.Consume(0, "q", "c", False, flag, False, False, t))):\n'
             '        tbl = hx.table(vals)\n'
             '        data = hx.fix(frame.marshal(mk(tbl), ch))\n'
             '        c, chan, f = frame.unmarshal(data)\n'
             '        got = f.client_properties if cls is commands.Connection.StartOk else f.arguments\n'
             '        ok = ok and c == len(data) and chan == ch and type(f) is cls and len(got) == len(vals)\n'
             '        for k, v in vals:\n'
             '            g = got[k]\n'
             '            if isinstance(v, decimal.Decimal):\n'
             '                ok = ok and type(g) is decimal.Decimal and g == v and g.as_tuple().exponent == min(v.as_tuple().exponent, 0)\n'
             '            elif isinstance(v, dict):\n'
             '                ok = ok and isinstance(g, dict) and g["k"]["l"] == n\n'
             '            else:\n'
             '                ok = ok and g == v and type(g) is type(v)\n'
             '    return ok\n',
        prelude=common.PRELUDE, timeout=250, family='rt_method_table_values',
        bound='Queue.Declare / Connection.StartOk / Basic.Consume with an 11-entry table covering every value kind '
              '(Decimal with positive and negative exponent, float, text, bytearray, nested list and tables), '
              'integer and flag symbolic',
        rep={'ch': 1, 'n': -129, 'flag': True}))
    # vacuity twin: same harness with the assertion negated must be refuted
    m = spec.BY_NAME['Basic.Nack']
    params, pre, ctor, checks, rep = common.method_params(m, 1)
    _body.params = [p for p, _ in params]
    twin = Part(name='twin_rt_basic_nack', params=[('ch', 'int')] + params,
                pre=['0 <= ch <= 65535'] + pre,
                body=_body(m, ctor, checks).replace('    return ok', '    return not ok'),
                prelude=common.PRELUDE + common.TABLE_HELPER, timeout=60, expect='refuted',
                family='rt_method', bound='vacuity twin (assertion negated)')
    parts.append(twin)
    return parts
