"""C07 - incomplete frames are reported as UnmarshalingException, never as a frame."""
from engine.part import Part
from harness import common
from harness.common import spec

META = {
    'tier_note': 'quick and thorough use the same (thorough) bounds for this property',
    'level': 'model_checking',
    'claim': 'For valid frames of every kind built from symbolic values, the cut point k is a symbolic '
             'variable ranging over 0..len-1; frame.unmarshal(frame[:k]) must raise exactly '
             'UnmarshalingException. Every socket-read boundary of every covered frame is decided by '
             'the solver in one exploration instead of four hand-made truncations.',
    'trusted': 'CrossHair + z3; symrt struct/CBytes models.',
    'bounds': {
        'quick': 'heartbeat (all channels), protocol header (all version triples), content body '
                 '(lengths 1..6, all contents), content header (priority, delivery mode, a fixed short '
                 'string, timestamp, headers), 12 method classes covering every wire type with '
                 'symbolic arguments (strings <= 1 code point, fixed in classes with several strings; table '
                 '{k: n}); every cut 0..len-1',
        'thorough': 'all 64 method classes, body lengths 1..16',
    },
    'outside': 'frames larger than the bound (the guards compare lengths only, not contents)',
    'cuts': ['exception message formatting'],
}

PRE = common.PRELUDE + common.TABLE_HELPER + '''
def cut_ok(data, k):
    """decoding the strict prefix data[:k] must raise UnmarshalingException and nothing else"""
    data = hx.fix(data)
    if not (0 <= k < len(data)):
        return hx.rejected()
    prefix = data[0:k]
    try:
        r = frame.unmarshal(prefix)
    except exceptions.UnmarshalingException:
        return True
    return False
'''

QUICK_CLASSES = ['Basic.Ack', 'Basic.Nack', 'Basic.Publish', 'Basic.Deliver', 'Queue.Declare',
                 'Connection.Start', 'Connection.Tune', 'Connection.Close', 'Channel.Flow',
                 'Tx.Select', 'Basic.Qos', 'Connection.StartOk']


def _fixed_strings(m):
    from harness.c01 import _fixed_strings as f
    return f(m)


def _method_part(m, strlen, timeout):
    nstr = sum(1 for _, t, _ in m['args'] if t in ('shortstr', 'longstr'))
    fixed = _fixed_strings(m) if (strlen == 0 or nstr >= 2) else {}
    for a, t, _ in m['args']:
        if t == 'table':
            fixed[a] = {'k': -129}     # the cut harness needs a table to cut through, not its values
    params, pre, ctor, checks, rep = common.method_params(m, max(strlen, 1), fixed=fixed)
    names = ['ch'] + [p for p, _ in params] + ['k']
    body = '\n'.join([
        'def body(%s):' % ', '.join(names),
        '    try:',
        '        data = frame.marshal(%s(%s), ch)' % (common.cls_expr(m['name']), ', '.join(ctor)),
        '    except ValueError:',
        '        return hx.rejected()',
        '    return cut_ok(data, k)'])
    return Part(name='cut_' + common.safe(m['name']), params=[('ch', 'int')] + params + [('k', 'int')],
                pre=['0 <= ch <= 65535'] + pre + ['0 <= k <= 80'], body=body, prelude=PRE,
                timeout=timeout, family='cut_method',
                bound='%s with symbolic arguments, every cut point' % m['name'],
                rep=dict(rep, ch=3, k=9))


def partitions(tier, seed):
    # the thorough bounds of this property exhaust in about a minute: the quick tier uses them too
    tier = 'thorough'
    q = tier == 'quick'
    parts = []
    parts.append(Part('cut_heartbeat', [('ch', 'int'), ('k', 'int')], ['0 <= ch <= 65535', '0 <= k <= 7'],
                      'def body(ch, k):\n    return cut_ok(hx.buf([8, ch // 256, ch % 256, 0, 0, 0, 0, 0xCE]), k)\n',
                      PRE, 60, family='cut_heartbeat', bound='heartbeat on any channel, cuts 0..7',
                      rep={'ch': 0, 'k': 3}))
    parts.append(Part('cut_heartbeat_marshal', [('k', 'int')], ['0 <= k <= 7'],
                      'def body(k):\n    return cut_ok(frame.marshal(heartbeat.Heartbeat(), 0), k)\n',
                      PRE, 60, family='cut_heartbeat', bound='encoder-produced heartbeat, cuts 0..7',
                      rep={'k': 0}))
    parts.append(Part('cut_protocol_header', [('a', 'int'), ('b', 'int'), ('c', 'int'), ('k', 'int')],
                      ['0 <= a <= 255', '0 <= b <= 255', '0 <= c <= 255', '0 <= k <= 7'],
                      'def body(a, b, c, k):\n    return cut_ok(frame.marshal(header.ProtocolHeader(a, b, c), 0), k)\n',
                      PRE, 60, family='cut_protocol_header', bound='all version triples, cuts 0..7',
                      rep={'a': 0, 'b': 9, 'c': 1, 'k': 7}))
    for n in (range(1, 7) if q else range(1, 17)):
        parts.append(Part('cut_body_%d' % n, [('ch', 'int'), ('content', 'bytes'), ('k', 'int')],
                          ['0 <= ch <= 65535', 'len(content) == %d' % n, '0 <= k <= %d' % (n + 7)],
                          'def body(ch, content, k):\n'
                          '    return cut_ok(frame.marshal(_body.ContentBody(hx.buf(hx.blist(content, %d))), ch), k)\n' % n,
                          PRE, 120, family='cut_body', bound='all bodies of length %d, every cut' % n,
                          rep={'ch': 1, 'content': {'__bytes__': 'ce' * n}, 'k': n + 7}))
    parts.append(Part('cut_header',
                      [('ch', 'int'), ('size', 'int'), ('prio', 'int'), ('dm', 'int'),
                       ('ts', 'int'), ('k', 'int')],
                      ['0 <= ch <= 65535', '0 <= size < 2**64', '0 <= prio <= 255', '1 <= dm <= 2',
                       '0 <= ts < 2**32', '0 <= k <= 60'],
                      'def body(ch, size, prio, dm, ts, k):\n'
                      '    p = commands.Basic.Properties(content_type="a/b", priority=prio, delivery_mode=dm,\n'
                      '                                  timestamp=hx.dt(ts, 0, 0), headers=hx.table([("k", 1)]))\n'
                      '    return cut_ok(frame.marshal(header.ContentHeader(0, size, p), ch), k)\n',
                      PRE, 200, family='cut_header', bound='content header with 5 properties, every cut',
                      rep={'ch': 1, 'size': 10, 'prio': 0, 'dm': 1, 'ts': 1, 'k': 20}))
    parts.append(Part('cut_header_empty', [('ch', 'int'), ('size', 'int'), ('k', 'int')],
                      ['0 <= ch <= 65535', '0 <= size < 2**64', '0 <= k <= 21'],
                      'def body(ch, size, k):\n'
                      '    return cut_ok(frame.marshal(header.ContentHeader(0, size), ch), k)\n',
                      PRE, 100, family='cut_header', bound='content header without properties, every cut',
                      rep={'ch': 1, 'size': 0, 'k': 21}))
    for m in spec.METHODS:
        if q and m['name'] not in QUICK_CLASSES:
            continue
        parts.append(_method_part(m, 1, 200 if q else 480))
    parts.append(Part('twin_cut_body', [('ch', 'int'), ('content', 'bytes'), ('k', 'int')],
                      ['0 <= ch <= 65535', 'len(content) == 2', '0 <= k <= 10'],
                      'def body(ch, content, k):\n'
                      '    return not cut_ok(frame.marshal(_body.ContentBody(hx.buf(hx.blist(content, 2))), ch), k)\n',
                      PRE, 60, expect='refuted', family='cut_body',
                      bound='vacuity twin (assertion negated)'))
    return parts
