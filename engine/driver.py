"""Driver: partitions -> 16 CrossHair workers -> replay of counterexamples -> verdict + evidence."""
import concurrent.futures as cf
import fnmatch
import importlib
import json
import os
import random
import shutil
import subprocess
import sys
import tempfile
import time

VERIF = os.path.dirname(os.path.dirname(os.path.abspath(__file__)))
PY = os.path.join(VERIF, '.venv', 'bin', 'python')
if not os.path.exists(PY):
    PY = '/verif/.venv/bin/python'       # running from a snapshot of /verif (vp run)
REPO = os.environ.get('VERIF_REPO', '/repo')
JOBS = int(os.environ.get('VERIF_JOBS', str(os.cpu_count() or 4)))


def _env(extra=None):
    e = dict(os.environ)
    e['PYTHONPATH'] = VERIF
    e['VERIF_REPO'] = REPO
    e['PYTHONHASHSEED'] = '0'
    e.pop('TZ', None)
    if extra:
        e.update(extra)
    return e


def load_known(pid):
    path = os.path.join(VERIF, 'known_findings.json')
    if not os.path.exists(path):
        return []
    with open(path) as f:
        data = json.load(f)
    return [k for k in data.get('findings', []) if k.get('property') == pid]


DEADLINE = [None]


def run_worker(part, workdir):
    if DEADLINE[0] is not None and time.time() > DEADLINE[0]:
        return {'status': 'UNKNOWN', 'paths': 0, 'reach': 0, 'rejected': 0, 'solver_queries': 0,
                'solver_time_s': 0.0, 'functions': [], 'cex': None, 'stats': {}, 'model_stats': {},
                'rewrites': {}, 'messages': ['not started: the wall-clock budget of this tier was used up'],
                'stderr': '', 'rc': None, 'elapsed': 0.0}
    src = os.path.join(workdir, part.name + '.py')
    with open(src, 'w') as f:
        f.write(part.source())
    out = os.path.join(workdir, part.name + '.json')
    cmd = [PY, '-m', 'engine.worker', src, out, str(part.timeout)]
    if part.per_path:
        cmd.append(str(part.per_path))
    t0 = time.time()
    try:
        p = subprocess.run(cmd, cwd=VERIF, env=_env(), capture_output=True, text=True,
                           timeout=part.timeout * 2.5 + 60)
        err = p.stderr[-2000:]
        rc = p.returncode
    except subprocess.TimeoutExpired:
        err, rc = 'hard wall-clock timeout', -9
    if os.path.exists(out):
        with open(out) as f:
            res = json.load(f)
    else:
        res = {'status': 'ERROR', 'paths': 0, 'reach': 0, 'rejected': 0, 'solver_queries': 0,
               'solver_time_s': 0.0, 'functions': [], 'cex': None, 'messages': [], 'stats': {},
               'model_stats': {}, 'rewrites': {}}
        if rc == -9:
            res['status'] = 'UNKNOWN'
            res['messages'] = ['hard wall-clock timeout']
    res['stderr'] = err if res['status'] in ('ERROR',) else ''
    res['rc'] = rc
    res['elapsed'] = round(time.time() - t0, 2)
    return res


def _zone_tzs(zone):
    """POSIX TZ candidates for (std offset, dst in force): without DST a fixed offset; with DST two
    rules whose DST periods together cover the whole year (northern / southern style)"""
    std, dst = int(zone[0]), bool(zone[1])
    base = _posix_tz(std)
    if not dst:
        return [base]
    alt = _posix_tz(std + 3600).replace('XXX', 'YYY')
    return [base + alt + ',M1.2.0/0,M12.3.0/0', base + alt + ',M7.1.0/0,M6.3.0/0']


def _amplified(args):
    """variants of a counterexample with one 4-octet window of one bytes argument set to 0x00ffffff"""
    out = []
    for k, v in args.items():
        if isinstance(v, dict) and '__bytes__' in v:
            h = v['__bytes__']
            for off in range(0, len(h) - 7, 2):
                nv = h[:off] + '00ffffff' + h[off + 8:]
                if nv != h:
                    out.append(dict(args, **{k: {'__bytes__': nv}}))
    return out[:64]


def replay(part, args, workdir, tz_offsets=None, tag='cex', timeout=60, zone=None):
    """Concrete run of the same harness body on the uninstrumented repo. -> dict(ok, observed)"""
    src = os.path.join(workdir, part.name + '.py')
    if not os.path.exists(src):
        with open(src, 'w') as f:
            f.write(part.source())
    af = os.path.join(workdir, '%s.%s.args.json' % (part.name, tag))
    with open(af, 'w') as f:
        json.dump(args if isinstance(args, list) else {'args': args}, f)
    tzs = [None]
    if part.tz_replay and zone:
        tzs = _zone_tzs(zone)
    elif part.tz_replay and tz_offsets:
        tzs = [_posix_tz(o) for o in tz_offsets]
    last = None
    for tz in tzs:
        extra = {'HX_MODE': 'concrete'}
        if tz:
            extra['TZ'] = tz
        try:
            p = subprocess.run(['/venv/bin/python', '-m', 'engine.replayer', src, af], cwd=VERIF,
                               env=_env(extra), capture_output=True, text=True, timeout=timeout)
        except subprocess.TimeoutExpired:
            last = {'ok': False, 'observed': 'replay did not terminate within %ds' % timeout, 'tz': tz}
            return last
        if p.returncode != 0:
            last = {'ok': None, 'observed': 'replayer error: ' + p.stderr[-1500:], 'tz': tz}
            continue
        last = json.loads(p.stdout.strip().splitlines()[-1])
        if isinstance(last, dict):
            last['tz'] = tz
            if last.get('ok') is False:
                return last
    return last


def _posix_tz(offset_seconds):
    """POSIX TZ string for a fixed utc offset (POSIX sign is inverted: XXX-01 is UTC+1)."""
    o = int(offset_seconds)
    sign = '-' if o >= 0 else '+'
    o = abs(o)
    return 'XXX%s%02d:%02d:%02d' % (sign, o // 3600, (o % 3600) // 60, o % 60)


def _eval_expr(expr, args):
    from symrt import hx
    env = {k: hx.from_jsonable(v) for k, v in args.items()}
    try:
        return bool(eval(expr, {'__builtins__': __builtins__}, env))
    except Exception:
        return False


def check(pid, tier, seed):
    t_start = time.time()
    mod = importlib.import_module('harness.' + pid.lower())
    rng = random.Random(seed)
    parts = list(mod.partitions(tier, seed))
    quick_names = set()
    if tier == 'thorough':
        # thorough = every quick partition (run first) + the wider thorough partitions
        qparts = list(mod.partitions('quick', seed))
        qsrc = {p.name: p.source() for p in qparts}
        quick_names = set(qsrc)
        extra = []
        for p in parts:
            if p.name in qsrc:
                if p.source() == qsrc[p.name] or p.expect == 'refuted':
                    continue
                p.name = p.name + '__t'
            extra.append(p)
        parts = qparts + extra
    names = [p.name for p in parts]
    assert len(set(names)) == len(names), 'duplicate partition names'
    meta = getattr(mod, 'META', {})
    workdir = tempfile.mkdtemp(prefix='verif-%s-' % pid, dir=os.environ.get('VERIF_WORK'))
    evidence_dir = os.environ.get('VERIF_EVIDENCE_DIR') or os.path.join(VERIF, 'evidence')
    replay_dir = os.path.join(evidence_dir, 'replay')
    os.makedirs(replay_dir, exist_ok=True)
    for old in os.listdir(replay_dir):
        if old.startswith(pid + '-'):
            os.unlink(os.path.join(replay_dir, old))
    lines = []
    exit_code = 0
    violations = 0
    harness_errors = []
    known_lines = []
    try:
        # --- known findings: confirm each open one still reproduces, then exclude its region
        by_name = {p.name: p for p in parts}
        for k in load_known(pid):
            if k.get('status') != 'open':
                continue
            w = k.get('witness') or {}
            wp = by_name.get(w.get('partition'))
            still = False
            if wp is not None:
                r = replay(wp, w['args'], workdir, tz_offsets=w.get('env_offsets'), tag='known')
                still = r is not None and r.get('ok') is False
            if still:
                known_lines.append('KNOWN-FINDING: property=%s %s' % (pid, k['what']))
                for p in parts:
                    if fnmatch.fnmatch(p.name, k.get('partitions', '*')) and k.get('exclude'):
                        p.exclude.append(k['exclude'])
            else:
                lines.append('NOTE known finding %s no longer reproduces; its region is explored again'
                             % k.get('id'))

        # --- kernels (direct SMT queries), if any
        kernel_results = []
        if hasattr(mod, 'kernels'):
            kernel_results = list(mod.kernels(tier, seed))

        # --- symbolic exploration
        budget = os.environ.get('VERIF_WALL_BUDGET') or ('1200' if tier == 'thorough' else '')
        DEADLINE[0] = (time.time() + float(budget)) if budget else None
        order = list(parts)
        rng.shuffle(order)
        if tier != 'thorough':
            order.sort(key=lambda p: -p.timeout)      # quick: longest first
        else:
            # thorough: the quick partitions first, then a seeded shuffle of the wider ones, so that the
            # wall-clock budget cuts a random subset of the extras only
            order.sort(key=lambda p: 0 if p.name in quick_names else 1)
        results = {}
        with cf.ThreadPoolExecutor(max_workers=JOBS) as ex:
            # self-test of the modelling layer runs alongside (exit 3 on mismatch)
            st_fut = ex.submit(subprocess.run, [PY, '-m', 'symrt.selftest', str(seed)], cwd=VERIF,
                               env=_env(), capture_output=True, text=True, timeout=900)
            futs = {ex.submit(run_worker, p, workdir): p for p in order if not p.concrete_only}
            for fut in cf.as_completed(futs):
                p = futs[fut]
                results[p.name] = fut.result()
            st = st_fut.result()
        if st.returncode != 0:
            print(st.stdout[-3000:])
            print(st.stderr[-3000:])
            print('HARNESS-ERROR property=%s model self-test failed' % pid)
            return 3
        selftest_cases = int((st.stdout.strip().splitlines() or ['0'])[-1].split()[-1])

        # --- representative concrete traces (a failing one is a concrete violation in itself)
        traces = 0
        rep_failed = {}
        reps = [p for p in parts if p.rep is not None and p.expect == 'confirmed']
        with cf.ThreadPoolExecutor(max_workers=JOBS) as ex:
            futs = {ex.submit(replay, p, p.rep, workdir, None, 'rep'): p for p in reps}
            for fut in cf.as_completed(futs):
                p = futs[fut]
                r = fut.result()
                traces += 1
                if r and r.get('ok') is True:
                    continue
                if r and r.get('ok') is False:
                    if not any(_eval_expr(e, p.rep) for e in p.exclude):
                        rep_failed[p.name] = r
                else:
                    harness_errors.append('representative input of %s could not be run: %s'
                                          % (p.name, r))

        # --- verdicts
        exhausted = 0
        inconclusive = []
        n_cex = 0
        for p in parts:
            if p.concrete_only:
                results[p.name] = {'status': 'CONCRETE', 'paths': 0, 'reach': 0, 'rejected': 0,
                                   'solver_queries': 0, 'solver_time_s': 0.0, 'functions': [], 'elapsed': None}
                if p.name in rep_failed:
                    n_cex += 1
                    rp = os.path.join(replay_dir, '%s-%d.json' % (pid, n_cex))
                    with open(rp, 'w') as f:
                        json.dump({'property': pid, 'partition': p.name, 'bound': p.bound, 'args': p.rep,
                                   'tz_replay': p.tz_replay,
                                   'observed_concrete': rep_failed[p.name].get('observed'),
                                   'source': p.source()}, f, indent=1)
                    lines.append('VIOLATION property=%s replay=%s' % (pid, rp))
                    lines.append('  partition=%s concrete obligation fails: %s'
                                 % (p.name, rep_failed[p.name].get('observed')))
                    violations += 1
                else:
                    exhausted += 1
                continue
            if p.expect == 'refuted':
                pass
            r = results[p.name]
            s = r['status']
            if p.expect == 'refuted':
                if s == 'REFUTED':
                    exhausted += 1
                else:
                    harness_errors.append('vacuity twin %s was not refuted (%s)' % (p.name, s))
                continue
            if p.name in rep_failed and not (s == 'REFUTED' and r.get('cex')):
                # the symbolic run did not refute, but the authored representative input fails on the
                # real code: report it (and flag the disagreement)
                n_cex += 1
                rp = os.path.join(replay_dir, '%s-%d.json' % (pid, n_cex))
                with open(rp, 'w') as f:
                    json.dump({'property': pid, 'partition': p.name, 'bound': p.bound,
                               'args': p.rep, 'tz_replay': p.tz_replay,
                               'observed_concrete': rep_failed[p.name].get('observed'),
                               'source': p.source()}, f, indent=1)
                lines.append('VIOLATION property=%s replay=%s' % (pid, rp))
                lines.append('  partition=%s representative input fails concretely: %s (symbolic status %s)'
                             % (p.name, rep_failed[p.name].get('observed'), s))
                violations += 1
                continue
            if s == 'CONFIRMED':
                if r.get('reach', 0) + r.get('rejected', 0) <= 0:
                    harness_errors.append('%s confirmed without reaching the assertion' % p.name)
                else:
                    exhausted += 1
            elif s == 'REFUTED':
                cex = r.get('cex')
                if not cex:
                    harness_errors.append('%s refuted without a side-channel counterexample: %s'
                                          % (p.name, r.get('messages')))
                    continue
                rr = replay(p, cex['args'], workdir, tz_offsets=cex.get('env_offsets'), zone=cex.get('env_zone'))
                traces += 1
                if rr and rr.get('ok') is True and p.amplify:
                    # the symbolic tick budget is tight, the concrete line budget generous: the solver's
                    # input shows work growing with a length field, so inflate each 4-octet window of it and
                    # let the real code decide
                    variants = _amplified(cex['args'])
                    if variants:
                        many = replay(p, [{'args': v} for v in variants], workdir, tag='amp', timeout=300)
                        traces += len(variants)
                        if isinstance(many, list):
                            for v, one in zip(variants, many):
                                if one.get('ok') is False:
                                    cex = dict(cex, args=v, observed='amplified from solver input %s'
                                               % json.dumps(cex['args'])[:200])
                                    rr = one
                                    break
                if rr and rr.get('ok') is False:
                    n_cex += 1
                    rp = os.path.join(replay_dir, '%s-%d.json' % (pid, n_cex))
                    with open(rp, 'w') as f:
                        json.dump({'property': pid, 'partition': p.name, 'bound': p.bound,
                                   'args': cex['args'], 'env_offsets': cex.get('env_offsets'),
                                   'env_zone': cex.get('env_zone'),
                                   'tz': rr.get('tz'), 'tz_replay': p.tz_replay,
                                   'observed_symbolic': cex.get('observed'),
                                   'observed_concrete': rr.get('observed'),
                                   'source': p.source()}, f, indent=1)
                    lines.append('VIOLATION property=%s replay=%s' % (pid, rp))
                    lines.append('  partition=%s args=%s observed=%s'
                                 % (p.name, json.dumps(cex['args'])[:300], rr.get('observed')))
                    violations += 1
                elif rr and rr.get('ok') is True and cex.get('suspect'):
                    # the symbolic run flagged a suspicion (e.g. a write to module state) that the concrete
                    # amplification on the real code found to be unobservable
                    inconclusive.append(p.name)
                    lines.append('NOTE harness=%s suspicion not confirmed by the concrete run (no observable '
                                 'difference): args=%s' % (p.name, json.dumps(cex['args'])[:200]))
                else:
                    harness_errors.append(
                        'counterexample of %s does not reproduce on the real code (model or harness '
                        'error): args=%s concrete=%s' % (p.name, json.dumps(cex['args'])[:300], rr))
            elif s == 'PRE_UNSAT':
                harness_errors.append('%s: precondition unsatisfiable (vacuous harness)' % p.name)
            elif s == 'UNKNOWN':
                inconclusive.append(p.name)
                lines.append('INCONCLUSIVE harness=%s paths=%d (%s)'
                             % (p.name, r.get('paths', 0), '; '.join(r.get('messages', []))[:200]))
            else:
                harness_errors.append('%s: worker failed (%s): %s'
                                      % (p.name, s, (r.get('stderr') or '')[-800:]))

        for kr in kernel_results:
            if kr['status'] == 'sat':
                wp, wargs = kr.get('replay_part'), kr.get('replay_args')
                rr = replay(wp, wargs, workdir) if wp is not None else None
                traces += 1
                if rr and rr.get('ok') is False:
                    n_cex += 1
                    rp = os.path.join(replay_dir, '%s-%d.json' % (pid, n_cex))
                    with open(rp, 'w') as f:
                        json.dump({'property': pid, 'partition': wp.name, 'bound': kr.get('bound'),
                                   'args': wargs, 'kernel': kr['name'],
                                   'observed_concrete': rr.get('observed'),
                                   'source': wp.source()}, f, indent=1)
                    lines.append('VIOLATION property=%s replay=%s' % (pid, rp))
                    lines.append('  kernel=%s witness=%s' % (kr['name'], json.dumps(wargs)[:300]))
                    violations += 1
                elif kr.get('sat_means') == 'candidate' and rr and rr.get('ok') is True:
                    # the solver's answer is a candidate only (e.g. an ambiguous regex loop): the property is
                    # decided by what the real code does with the witness, and it behaved
                    lines.append('NOTE kernel=%s candidate %s does not violate the property on the real code'
                                 % (kr['name'], json.dumps(wargs)[:200]))
                else:
                    harness_errors.append('kernel %s: model does not reproduce: %s -> %s'
                                          % (kr['name'], json.dumps(wargs)[:300], rr))
            elif kr['status'] != 'unsat':
                inconclusive.append('kernel:' + kr['name'])
                lines.append('INCONCLUSIVE kernel=%s (%s)' % (kr['name'], kr.get('detail', ''))[:300])

        # --- evidence
        total_paths = sum(r.get('paths', 0) for r in results.values())
        reach = sum(r.get('reach', 0) for r in results.values())
        rejected = sum(r.get('rejected', 0) for r in results.values())
        queries = sum(r.get('solver_queries', 0) for r in results.values()) + \
            sum(k.get('queries', 0) for k in kernel_results)
        stime = sum(r.get('solver_time_s', 0) for r in results.values()) + \
            sum(k.get('solver_time_s', 0) for k in kernel_results)
        functions = sorted(set(f for r in results.values() for f in r.get('functions', [])))
        real_parts = [p for p in parts if p.expect == 'confirmed']
        all_exhausted = (not inconclusive and not harness_errors and violations == 0)
        samples = []
        for p in parts[:]:
            r = results[p.name]
            samples.append({'partition': p.name, 'bound': p.bound, 'status': r['status'],
                            'paths': r.get('paths', 0), 'reached_assertion': r.get('reach', 0),
                            'rejected_inputs': r.get('rejected', 0), 'max_ticks': r.get('max_ticks'),
                            'representative_input': p.rep, 'cpu_budget_s': p.timeout,
                            'elapsed_s': r.get('elapsed')})
        for kr in kernel_results:
            samples.append({'kernel': kr['name'], 'status': kr['status'], 'bound': kr.get('bound'),
                            'detail': kr.get('detail'), 'solver': kr.get('solver')})
        samples.sort(key=lambda s: s.get('partition') or s.get('kernel'))
        if len(samples) > 400:
            samples = samples[:400] + [{'note': '%d more partitions omitted' % (len(samples) - 400)}]
        model_stats = {}
        for r in results.values():
            for k, v in (r.get('model_stats') or {}).items():
                model_stats[k] = model_stats.get(k, 0) + v
        import symrt
        ev = {
            'property_id': pid, 'tier': tier, 'seed': seed, 'level': meta.get('level', 'model_checking'),
            'coverage': {
                'states': max(total_paths, 0), 'transitions': max(queries, 0),
                'traces_validated_against_impl': traces,
                'samples': samples,
                'evaluations': total_paths + len(kernel_results),
                'distinct_nontrivial': reach,
                'rule': 'one evaluation = one symbolic path of a harness explored by CrossHair (each '
                        'path stands for the whole class of inputs satisfying its path condition); '
                        'non-trivial = the path satisfied the preconditions, ran the real pamqp code '
                        'and reached the final assertion (paths ending in an allowed rejection are '
                        'counted in rejected_paths instead)',
                'rejected_paths': rejected,
                'harnesses': sorted(set(p.family or p.name for p in parts)),
                'partitions_total': len(parts), 'partitions_exhausted': exhausted,
                'partitions_inconclusive': inconclusive,
                'exhaustive': bool(all_exhausted),
                'exhaustive_means': 'every feasible path of every partition was explored within the '
                                    'stated bounds (CrossHair "Confirmed over all paths"); nothing is '
                                    'claimed outside the bounds',
                'bounds': (meta.get('bounds').get('thorough' if meta.get('tier_note') else tier)
                           if isinstance(meta.get('bounds'), dict) else meta.get('bounds')),
                'tier_note': meta.get('tier_note', ''),
                'outside_bounds': meta.get('outside', ''),
                'functions_encoded': functions,
                'solver_queries': queries, 'solver_time_s': round(stime, 2),
                'kernel_queries': [{k: v for k, v in kr.items() if k not in ('replay_part',)}
                                   for kr in kernel_results],
                'models_used': symrt.MODELS, 'model_stats': model_stats,
                'model_selftest_cases': selftest_cases,
                'cuts': meta.get('cuts', []),
                'known_findings_reported': known_lines,
                'harness_errors': harness_errors,
                'repo_head': _git_head(),
            },
            'assumptions': meta.get('assumptions', []) + [
                'CrossHair 0.0.110 models of str/bytes/utf-8/int/bool and z3 5.1 are sound',
                'symrt models (listed under models_used) agree with CPython; differentially tested '
                'on every run by symrt.selftest',
            ],
            'wall_s': round(time.time() - t_start, 2),
            'violations': violations,
        }
        if hasattr(mod, 'evidence_extra'):
            ev['coverage'].update(mod.evidence_extra(tier, kernel_results, results))
        with open(os.path.join(evidence_dir, pid + '.json'), 'w') as f:
            json.dump(ev, f, indent=1, default=str)

        for ln in known_lines:
            print(ln)
        for ln in lines:
            print(ln)
        print('SUMMARY property=%s tier=%s partitions=%d exhausted=%d inconclusive=%d paths=%d '
              'solver_queries=%d solver_time=%.1fs wall=%.1fs'
              % (pid, tier, len(parts), exhausted, len(inconclusive), total_paths, queries, stime,
                 time.time() - t_start))
        if harness_errors:
            for e in harness_errors:
                print('HARNESS-ERROR property=%s %s' % (pid, e))
            exit_code = 3
        if violations:
            exit_code = 1
        return exit_code
    finally:
        if not os.environ.get('VERIF_KEEP'):
            shutil.rmtree(workdir, ignore_errors=True)
        else:
            print('workdir kept:', workdir)


def _git_head():
    try:
        h = subprocess.run(['git', '-C', REPO, 'rev-parse', '--short', 'HEAD'], capture_output=True,
                           text=True).stdout.strip()
        d = subprocess.run(['git', '-C', REPO, 'status', '--porcelain', '--', 'pamqp'],
                           capture_output=True, text=True).stdout.strip()
        return h + ('+dirty' if d else '')
    except Exception:
        return 'unknown'


def replay_file(pid, path):
    with open(path) as f:
        rec = json.load(f)
    from engine.part import Part

    class _P:
        pass
    workdir = tempfile.mkdtemp(prefix='verif-replay-')
    try:
        p = _P()
        p.name = rec['partition']
        p.tz_replay = rec.get('tz_replay', False)
        p.source = lambda: rec['source']
        r = replay(p, rec['args'], workdir, tz_offsets=rec.get('env_offsets'), zone=rec.get('env_zone'))
        print(json.dumps(r))
        if r and r.get('ok') is False:
            print('VIOLATION property=%s replay=%s' % (pid, path))
            return 1
        print('replay passes: property holds on this input')
        return 0
    finally:
        shutil.rmtree(workdir, ignore_errors=True)


def main(argv):
    import argparse
    ap = argparse.ArgumentParser()
    ap.add_argument('pid')
    ap.add_argument('--tier', default=os.environ.get('VERIF_TIER', 'quick'))
    ap.add_argument('--replay')
    a = ap.parse_args(argv)
    seed = int(os.environ.get('VERIF_SEED', '0') or 0)
    sys.path.insert(0, VERIF)
    if a.replay:
        return replay_file(a.pid, a.replay)
    try:
        return check(a.pid, a.tier, seed)
    except Exception:
        import traceback
        traceback.print_exc()
        print('HARNESS-ERROR property=%s the check itself failed (no verdict)' % a.pid)
        return 3


if __name__ == '__main__':
    sys.exit(main(sys.argv[1:]))
