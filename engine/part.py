"""A partition = one generated harness module + bounds + a representative concrete input."""
import textwrap
from dataclasses import dataclass, field
from typing import Dict, List, Optional, Tuple


@dataclass
class Part:
    name: str                       # unique within the property
    params: List[Tuple[str, str]]   # (name, type source) of the symbolic inputs
    pre: List[str]                  # PEP-316 preconditions (python source over the params)
    body: str                       # source of `def body(<params>): ... return <bool>`
    prelude: str = ''               # module-level source placed before body
    timeout: float = 60.0           # CPU seconds for the whole partition
    per_path: Optional[float] = None
    bound: str = ''                 # human-readable bound of this partition
    rep: Optional[Dict] = None      # representative concrete args (validated against the real code)
    expect: str = 'confirmed'       # 'confirmed' | 'refuted' (vacuity twin)
    family: str = ''                # harness family (for evidence grouping)
    tz_replay: bool = False         # counterexamples are replayed under TZ derived from env offsets
    exclude: List[str] = field(default_factory=list)  # extra preconditions from known findings
    concrete_only: bool = False     # finite obligations: only the authored input is run (on the real code)
    amplify: bool = False           # work-budget harnesses: a counterexample that only just exceeds the
                                    # symbolic budget is re-run with its 4-octet fields inflated

    def source(self) -> str:
        sig = ', '.join('%s: %s' % (n, t) for n, t in self.params)
        call = ', '.join('%s=%s' % (n, n) for n, _ in self.params)
        # lone surrogates are outside every symbolic string domain: hx.run discards a FAILING path whose
        # string arguments may contain one (see hx.valid_text); passing paths pay nothing for this
        pre = ''.join('    pre: %s\n' % p for p in list(self.pre) + ['not (%s)' % e for e in self.exclude])
        return (
            'import struct, datetime, decimal, time, copy\n'
            'from typing import Optional, Union, List, Dict, Tuple\n'
            'from symrt import hx\n'
            + textwrap.dedent(self.prelude).strip('\n') + '\n\n\n'
            + textwrap.dedent(self.body).strip('\n') + '\n\n\n'
            + 'def h(%s):\n    """\n%s    post: _\n    """\n    return hx.run(body, dict(%s))\n'
            % (sig, pre, call))
