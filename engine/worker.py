"""Worker: symbolically execute one harness partition with CrossHair + symrt models.

usage: python -m engine.worker <harness.py> <result.json> <cpu-timeout-s> [<per-path-timeout-s>]
"""
import collections
import importlib.util
import json
import os
import sys
import time


def main():
    path, out, timeout = sys.argv[1], sys.argv[2], float(sys.argv[3])
    per_path = float(sys.argv[4]) if len(sys.argv) > 4 else max(10.0, timeout / 8)
    os.environ['HX_MODE'] = 'sym'
    os.environ['HX_CEX_FILE'] = out + '.cex'
    t0 = time.time()
    import z3
    solver = {'n': 0, 't': 0.0}
    _check = z3.Solver.check

    def counted(self, *a):
        s = time.perf_counter()
        try:
            return _check(self, *a)
        finally:
            solver['n'] += 1
            solver['t'] += time.perf_counter() - s
    z3.Solver.check = counted

    from symrt import loader
    loader.install()
    import crosshair.core_and_libs  # noqa: F401  registers the standard plugins
    from crosshair.core import analyze_function, run_checkables
    from crosshair.options import (DEFAULT_OPTIONS, AnalysisKind,
                                   AnalysisOptionSet)
    from symrt import hx, models
    models.install()

    spec = importlib.util.spec_from_file_location('hx_harness', path)
    mod = importlib.util.module_from_spec(spec)
    sys.modules['hx_harness'] = mod
    spec.loader.exec_module(mod)
    fn = mod.h
    opts = DEFAULT_OPTIONS.overlay(AnalysisOptionSet(
        per_condition_timeout=timeout, per_path_timeout=per_path, report_all=True,
        analysis_kind=[AnalysisKind.PEP316], max_uninteresting_iterations=sys.maxsize))
    opts.stats = collections.Counter()
    checkables = analyze_function(fn, opts)
    msgs = list(run_checkables(checkables))
    states = [m.state.name for m in msgs]
    if not msgs:
        status = 'NO_CONDITIONS'
    elif all(s == 'CONFIRMED' for s in states):
        status = 'CONFIRMED'
    elif any(s == 'PRE_UNSAT' for s in states):
        status = 'PRE_UNSAT'
    elif any(s in ('POST_FAIL', 'EXEC_ERR', 'POST_ERR', 'PRE_INVALID', 'SYNTAX_ERR', 'IMPORT_ERR')
             for s in states):
        status = 'REFUTED'
    else:
        status = 'UNKNOWN'
    cex = None
    if os.path.exists(out + '.cex'):
        with open(out + '.cex') as f:
            cex = json.load(f)
        os.unlink(out + '.cex')
    res = {
        'status': status,
        'states': states,
        'messages': [m.message[:400] for m in msgs],
        'paths': int(opts.stats.get('num_paths', 0)),
        'stats': {k: int(v) for k, v in opts.stats.items()},
        'reach': hx.COUNT['reach'], 'rejected': hx.COUNT['rejected'], 'failed': hx.COUNT['failed'],
        'runs': hx.COUNT['runs'], 'max_ticks': hx.COUNT['max_ticks'],
        'solver_queries': solver['n'], 'solver_time_s': round(solver['t'], 3),
        'functions': sorted(loader.Fuel.functions),
        'model_stats': dict(models.STATS), 'rewrites': dict(loader.REWRITES),
        'cex': cex,
        'wall_s': round(time.time() - t0, 2),
    }
    with open(out, 'w') as f:
        json.dump(res, f)


if __name__ == '__main__':
    main()
