"""Replayer: run harness bodies concretely on the *uninstrumented* repository (no CrossHair, no
loader, no models).

usage: python -m engine.replayer <harness.py> <args.json>      -> prints one JSON line
       args.json: {"args": {...}} or a list of those (batch)
"""
import importlib.util
import json
import os
import sys


def main():
    path, argfile = sys.argv[1], sys.argv[2]
    os.environ['HX_MODE'] = 'concrete'
    root = os.environ.get('VERIF_REPO', '/repo')
    sys.path.insert(0, root)
    import pamqp
    assert os.path.realpath(os.path.dirname(pamqp.__file__)) == os.path.realpath(root + '/pamqp'), \
        'replayer imported pamqp from %s' % pamqp.__file__
    from symrt import hx
    spec = importlib.util.spec_from_file_location('hx_harness', path)
    mod = importlib.util.module_from_spec(spec)
    sys.modules['hx_harness'] = mod
    spec.loader.exec_module(mod)
    with open(argfile) as f:
        payload = json.load(f)
    batch = payload if isinstance(payload, list) else [payload]
    out = []
    for item in batch:
        args = {k: hx.from_jsonable(v) for k, v in item['args'].items()}
        ok = mod.h(**args)
        out.append({'ok': bool(ok), 'observed': hx.LAST['exc'],
                    'rejected': hx.COUNT['rejected']})
    print(json.dumps(out if isinstance(payload, list) else out[0]))


if __name__ == '__main__':
    main()
