"""Engine K: direct SMT-LIB2 queries generated from /repo's current source.

One solver process per batch (`z3 -in`), push/pop per query.  `unsat` = holds, `sat` = model is
turned into a concrete witness by the caller and replayed; anything else (unknown, time-out, any
`(error` line) is inconclusive.
"""
import re
import shutil
import subprocess
import time

SOLVERS = {
    # per-query time limits (z3's -T and cvc5's --tlimit bound the whole batch, which silently drops the
    # queries after a slow one)
    'z3-4.8': ['/usr/bin/z3', '-in', '-t:{tms}'],
    'z3-5.1': ['z3-new', '-in', '-t:{tms}'],
    'cvc5': ['cvc5', '--lang=smt2', '--incremental', '--produce-models', '--strings-exp',
             '--tlimit-per={tms}'],
}


def available():
    return [k for k, v in SOLVERS.items() if shutil.which(v[0])]


def smt_str(s):
    """SMT-LIB 2.6 string literal"""
    out = []
    for ch in s:
        o = ord(ch)
        if ch == '"':
            out.append('""')
        elif 32 <= o < 127 and ch != '\\':
            out.append(ch)
        else:
            out.append('\\u{%x}' % o)
    return '"' + ''.join(out) + '"'


def run_batch(solver, preamble, queries, timeout_s=60):
    """queries: list of (name, assertions_text, get_values list) -> list of dict results."""
    cmd = [a.format(t=timeout_s, tms=timeout_s * 1000) for a in SOLVERS[solver]]
    script = [preamble]
    for name, text, values in queries:
        script.append('(push 1)')
        script.append('(echo "BEGIN %s")' % name)
        script.append(text)
        script.append('(check-sat)')
        if values:
            script.append('(echo "VALUES")')
            for v in values:
                script.append('(get-value (%s))' % v)
        script.append('(echo "END %s")' % name)
        script.append('(pop 1)')
    script.append('(exit)')
    t0 = time.time()
    try:
        p = subprocess.run(cmd, input='\n'.join(script), capture_output=True, text=True,
                           timeout=timeout_s * (len(queries) + 1) + 30)
        out = p.stdout
    except subprocess.TimeoutExpired:
        out = ''
    dt = time.time() - t0
    results = []
    for name, text, values in queries:
        m = re.search(r'"?BEGIN %s"?\n(.*?)"?END %s"?' % (re.escape(name), re.escape(name)), out, re.S)
        res = {'name': name, 'solver': solver, 'status': 'unknown', 'values': {}, 'raw': ''}
        if m:
            body = m.group(1)
            res['raw'] = body[:2000]
            lines = [l.strip() for l in body.strip().splitlines() if l.strip()]
            # an error printed BEFORE the verdict means an assertion was not understood (the verdict is then
            # about a weaker formula): inconclusive.  Errors after `unsat`/`unknown` come from the get-value
            # commands that follow every check-sat and are expected.
            idx = next((k for k, l in enumerate(lines) if l in ('sat', 'unsat', 'unknown', 'timeout')), None)
            if idx is None or any('(error' in l for l in lines[:idx]):
                res['status'] = 'error'
            elif lines[idx] == 'sat' and any('(error' in l for l in lines[idx + 1:]):
                res['status'] = 'error'
            else:
                res['status'] = lines[idx] if lines[idx] != 'timeout' else 'unknown'
            if res['status'] == 'sat':
                for v in values:
                    mm = re.search(r'\(\(%s\s+(.*?)\)\)\s*$' % re.escape(v), body, re.M | re.S)
                    if mm:
                        res['values'][v] = mm.group(1).strip()
        results.append(res)
    per = dt / max(len(queries), 1)
    for r in results:
        r['solver_time_s'] = round(per, 4)
    return results


def parse_smt_string(lit):
    """'"ab\\u{41}"' -> 'abA'"""
    lit = lit.strip()
    if lit.startswith('"') and lit.endswith('"'):
        lit = lit[1:-1]
    lit = lit.replace('""', '"')
    lit = re.sub(r'\\u\{([0-9a-fA-F]+)\}', lambda m: chr(int(m.group(1), 16)), lit)
    lit = re.sub(r'\\x([0-9a-fA-F]{2})', lambda m: chr(int(m.group(1), 16)), lit)
    return lit


def parse_smt_int(lit):
    lit = lit.strip()
    m = re.match(r'\(-\s*(\d+)\)', lit)
    if m:
        return -int(m.group(1))
    return int(lit)
