#!/bin/sh
# usage: tools/mutcheck.sh '<sed expr>' <file under pamqp/> <ID> [tier]
# Applies a one-line mutation to a scratch copy of /repo (outside /repo and /verif), runs the
# check against it through VERIF_REPO and removes the copy.
set -e
S=$(mktemp -d /tmp/mut.XXXXXX)
cp -r /repo/pamqp "$S/pamqp"
sed -i "$1" "$S/pamqp/$2"
if diff -q /repo/pamqp/$2 "$S/pamqp/$2" >/dev/null; then echo "mutation did not change $2"; rm -rf "$S"; exit 2; fi
diff /repo/pamqp/$2 "$S/pamqp/$2" | head -6
VERIF_REPO="$S" VERIF_EVIDENCE_DIR=/tmp/mut-evidence /verif/bin/check "$3" --tier "${4:-quick}" | tail -6
rc=$?
rm -rf "$S"
exit $rc
