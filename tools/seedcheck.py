#!/usr/bin/env python3
"""Confirm a seeded change (patch + demo) and run checks against it in a scratch worktree.

usage: tools/seedcheck.py <dir with patch.diff/demo.py> <ID> [<ID> ...] [--tier quick]
Prints one JSON line; the scratch worktree (outside /repo and /verif) is removed afterwards.
"""
import json
import os
import shutil
import subprocess
import sys
import tempfile
import time


def sh(cmd, **kw):
    return subprocess.run(cmd, shell=isinstance(cmd, str), capture_output=True, text=True, **kw)


def main():
    args = [a for a in sys.argv[1:] if not a.startswith('--')]
    tier = 'quick'
    for a in sys.argv[1:]:
        if a.startswith('--tier='):
            tier = a.split('=', 1)[1]
    d = os.path.abspath(args[0])
    ids = args[1:]
    patch = os.path.join(d, 'patch.diff')
    demo = os.path.join(d, 'demo.py')
    wt = tempfile.mkdtemp(prefix='seed-', dir='/tmp')
    os.rmdir(wt)
    out = {'dir': d, 'checks': {}}
    try:
        r = sh(['git', '-C', '/repo', 'worktree', 'add', '--detach', wt, 'HEAD'])
        assert r.returncode == 0, r.stderr
        r = sh([sys.executable.replace('.venv/bin/python', '.venv/bin/python'), '-c', 'pass'])
        # demo on the clean tree
        shutil.copy(demo, os.path.join(wt, '_demo.py'))
        r = sh(['/venv/bin/python', '_demo.py'], cwd=wt, timeout=600)
        out['demo_clean_rc'] = r.returncode
        r = sh(['git', '-C', wt, 'apply', patch])
        out['applies'] = r.returncode == 0
        if not out['applies']:
            out['apply_err'] = r.stderr[-500:]
            print(json.dumps(out))
            return
        r = sh(['/venv/bin/python', '-m', 'pytest', '-q', '-p', 'no:cacheprovider', '-x'], cwd=wt, timeout=900)
        out['tests_pass'] = r.returncode == 0
        out['tests_tail'] = r.stdout.strip().splitlines()[-1] if r.stdout.strip() else ''
        try:
            r = sh(['/venv/bin/python', '_demo.py'], cwd=wt, timeout=600)
            out['demo_changed_rc'] = r.returncode
        except subprocess.TimeoutExpired:
            out['demo_changed_rc'] = 'timeout'
        os.unlink(os.path.join(wt, '_demo.py'))
        for pid in ids:
            t0 = time.time()
            # evidence of runs against a changed tree must not overwrite the evidence of the unchanged tree
            os.makedirs('/tmp/seed-evidence', exist_ok=True)
            env = dict(os.environ, VERIF_REPO=wt, VERIF_EVIDENCE_DIR='/tmp/seed-evidence')
            r = sh(['/verif/bin/check', pid, '--tier', tier], env=env, timeout=7200)
            lines = r.stdout.splitlines()
            out['checks'][pid] = {
                'rc': r.returncode,
                'violations': sum(1 for l in lines if l.startswith('VIOLATION')),
                'inconclusive': sum(1 for l in lines if l.startswith('INCONCLUSIVE')),
                'errors': [l[:200] for l in lines if l.startswith('HARNESS-ERROR')][:3],
                'first': next((lines[i + 1][:300] for i, l in enumerate(lines)
                               if l.startswith('VIOLATION') and i + 1 < len(lines)), None),
                'wall': round(time.time() - t0, 1),
            }
    finally:
        sh(['git', '-C', '/repo', 'worktree', 'remove', '--force', wt])
        shutil.rmtree(wt, ignore_errors=True)
    print(json.dumps(out))


if __name__ == '__main__':
    main()
