#!/usr/bin/env python3
"""Copies confirmed seeded changes from the staging area into /verif/seeded/<id>/ with meta.json."""
import json
import os
import shutil
import sys

STAGE = sys.argv[1] if len(sys.argv) > 1 else '/tmp/seedstage'
OUT = '/verif/seeded'
os.makedirs(OUT, exist_ok=True)
rows = []
for d in sorted(os.listdir(STAGE)):
    sd = os.path.join(STAGE, d)
    rj = os.path.join(sd, 'result.json')
    if not os.path.isdir(sd) or not os.path.exists(rj):
        continue
    try:
        r = json.load(open(rj))
    except Exception:
        continue
    confirmed = (r.get('applies') and r.get('tests_pass') and r.get('demo_clean_rc') == 0
                 and r.get('demo_changed_rc') not in (0, None))
    if not confirmed:
        print('NOT CONFIRMED', d, {k: r.get(k) for k in ('applies', 'tests_pass', 'demo_clean_rc', 'demo_changed_rc')})
        continue
    od = os.path.join(OUT, d)
    os.makedirs(od, exist_ok=True)
    shutil.copy(os.path.join(sd, 'patch.diff'), os.path.join(od, 'patch.diff'))
    shutil.copy(os.path.join(sd, 'demo.py'), os.path.join(od, 'demo.py'))
    notes = open(os.path.join(sd, 'notes.md')).read() if os.path.exists(os.path.join(sd, 'notes.md')) else ''
    prop = d.split('_')[0]
    meta_path = os.path.join(od, 'meta.json')
    meta = json.load(open(meta_path)) if os.path.exists(meta_path) else {}
    meta.update({
        'id': d, 'breaks_property': prop,
        'origin': 'independent sub-agent given only the property text and a scratch worktree of /repo',
        'what_it_needs_to_manifest': notes.strip(),
        'confirmed_by': {
            'ran': ['git worktree add <scratch> HEAD (outside /repo and /verif)',
                    'python demo.py on the clean tree -> exit %s' % r.get('demo_clean_rc'),
                    'git apply patch.diff', 'pytest -q -p no:cacheprovider -> %s' % r.get('tests_tail'),
                    'python demo.py on the changed tree -> exit %s' % r.get('demo_changed_rc'),
                    'VERIF_REPO=<scratch> bin/check <ID> --tier quick',
                    'git worktree remove --force <scratch>'],
            'tests_still_pass': r.get('tests_pass'),
        },
    })
    det = meta.get('checks', {})
    for pid, c in r.get('checks', {}).items():
        det[pid] = {'exit': c['rc'], 'violations': c['violations'], 'inconclusive': c['inconclusive'],
                    'first_report': c.get('first'), 'wall_s': c.get('wall'),
                    'detected': c['rc'] == 1 and c['violations'] > 0}
    meta['checks'] = det
    json.dump(meta, open(meta_path, 'w'), indent=1)
    rows.append((d, {k: v['detected'] for k, v in det.items()}))
for r in rows:
    print(r)
