#!/usr/bin/env python3
"""Translation check of the independent reference (spec/amqp091.py + spec/refcodec.py): the byte fixtures
of the repository's own decode tests (captured wire frames with the argument values the tests expect) are
re-encoded by the reference from the *expected values* and compared with the fixture bytes.  pamqp itself is
not imported.  usage: tools/validate_refcodec.py [repo]"""
import ast
import datetime
import os
import sys

sys.path.insert(0, os.path.dirname(os.path.dirname(os.path.abspath(__file__))))
from spec import amqp091 as spec          # noqa: E402
from spec import refcodec as ref          # noqa: E402

repo = sys.argv[1] if len(sys.argv) > 1 else '/repo'
tree = ast.parse(open(os.path.join(repo, 'tests', 'test_frame_unmarshaling.py')).read())


def lit(node):
    try:
        return eval(compile(ast.Expression(node), '<fixture>', 'eval'), {'datetime': datetime, 'b': bytes})
    except Exception:
        return None


def single_bits(x):
    import struct
    return struct.unpack('>I', struct.pack('>f', x))[0]


def epoch_of(d):
    import calendar
    return calendar.timegm(d.utctimetuple())


total = exact = differs = skipped = 0
notes = []
for cls in tree.body:
    if not isinstance(cls, ast.ClassDef):
        continue
    for fn in cls.body:
        if not isinstance(fn, ast.FunctionDef) or not fn.name.startswith('test_'):
            continue
        data = expectation = None
        for st in ast.walk(fn):
            if isinstance(st, ast.Assign) and len(st.targets) == 1 and isinstance(st.targets[0], ast.Name):
                if st.targets[0].id == 'frame_data':
                    data = lit(st.value)
                elif st.targets[0].id == 'expectation':
                    expectation = lit(st.value)
        if not isinstance(data, bytes) or len(data) < 12 or data[0] != 1 or not isinstance(expectation, dict):
            skipped += 1
            continue
        total += 1
        channel = data[1] * 256 + data[2]
        index = int.from_bytes(data[7:11], 'big')
        m = spec.BY_INDEX.get(index)
        if m is None:
            differs += 1
            notes.append('%s: index 0x%08x not in the spec table' % (fn.name, index))
            continue
        values = []
        for (a, t, d) in m['args']:
            v = expectation.get(a, d)
            values.append(v)
        try:
            want = ref.flatten(ref.method_frame(channel, m, values, single_bits=single_bits, epoch_of=epoch_of))
        except Exception as e:
            differs += 1
            notes.append('%s (%s): reference refused the expected values: %s %s' % (fn.name, m['name'], type(e).__name__, e))
            continue
        if bytes(want) == data:
            exact += 1
        else:
            differs += 1
            has_table = any(t == 'table' and values[i] for i, (a, t, d) in enumerate(m['args']))
            notes.append('%s (%s): bytes differ%s' % (fn.name, m['name'],
                         ' (fixture table uses broker-chosen type tags / key order)' if has_table else ''))
print('method-frame fixtures: %d, re-encoded byte-identically by the reference: %d, different: %d, '
      'non-method or non-literal fixtures skipped: %d' % (total, exact, differs, skipped))
for n in notes:
    print('  ' + n)
sys.exit(0 if exact >= 50 and all('table' in n or 'refused' in n for n in notes) else 1)
